"""Shell-based *remote* locations for the file-system checks (C22, C24).

`ShellRemoteConnector` is a `BaseConnector` subclass whose locations are NOT local (so StreamFlow
uses `RemoteStreamFlowPath`, the persistent-shell `run`, and the tar-stream copy paths) and whose
commands run on this machine through `/bin/sh`, each location inside its own private root
directory entered with `chroot` (we are root in the sandbox; a minimal tool set - dash, GNU tar,
coreutils, find, awk - is hard-linked into every root from one template).  Hence two locations
never share files although they may use identical path strings (exactly as two remote hosts), and
whatever a wrongly quoted command creates or deletes stays inside the location's root, where the
tree walker sees it.

The command text is never rewritten: as with the SSH connector, the remote shell receives
`" ".join(command)` verbatim (`sh -c <text>` for streams and the fallback of `run`, the persistent
`sh` for `run`).  The only addition is a guard in front of the persistent shell: a command text
that dash cannot finish parsing (`Unterminated quoted string`) would make a real persistent shell
wait for more input for ever; the guard asks `sh -n` and raises `ShellWouldBlock` instead of
blocking the check.  `probe()` demonstrates once per run, on an unguarded shell, that this is what
really happens.
"""
from __future__ import annotations

import asyncio
import contextlib
import json
import os
import shutil
import stat
import subprocess
from collections.abc import MutableMapping, MutableSequence

TYPE = "vh-shell-remote"
TOOLS = ["dash", "tar", "find", "mawk", "tee", "head", "cat", "rm", "ln", "mkdir", "chmod", "readlink",
         "sha1sum", "ls", "cp", "base64", "env", "test", "mv", "touch", "stat", "true", "false", "printf",
         "dirname", "basename", "wc", "sort", "tr", "cut", "sleep", "id"]
TOOL_DIRS = ("bin", "lib", "lib64", "dev", "usr", "etc")
CHROOT = shutil.which("chroot", path="/usr/sbin:/sbin:/usr/bin:/bin") or "/usr/sbin/chroot"
ENV = {"PATH": "/bin", "LC_ALL": "C.UTF-8", "LANG": "C.UTF-8", "HOME": "/"}


class ShellWouldBlock(Exception):
    """The command text sent to the persistent remote shell is syntactically incomplete
    (unterminated quote): a real persistent shell waits for ever for the rest."""


def _may_be_incomplete(text: str) -> bool:
    """Cheap pre-filter for the `sh -n` guard: False only when a plain scan of the quoting proves
    that every quote is closed and the text uses none of the constructs the scan does not
    understand (command substitution, here-documents, comments, line continuation)."""
    if "`" in text or "$(" in text or "<<" in text or "#" in text or "\\\n" in text:
        return True
    i, n, state = 0, len(text), ""
    while i < n:
        c = text[i]
        if state == "":
            if c == "\\":
                i += 1
            elif c in "'\"":
                state = c
        elif state == "'":
            if c == "'":
                state = ""
        else:
            if c == "\\":
                i += 1
            elif c == '"':
                state = ""
        i += 1
    return state != "" or i > n


class CommandBudgetExceeded(Exception):
    """One StreamFlow call issued more remote commands than the driver allows (a loop that never
    ends, e.g. a directory walk that keeps re-listing the same directory)."""


class Toolbox:
    """Template root with the tools the StreamFlow commands need; `new_root(name)` hard-links a copy."""

    def __init__(self, base: str, template: str | None = None):
        self.base = os.path.realpath(base)
        os.makedirs(self.base, exist_ok=True)
        self.template = template or os.path.join(self.base, "_template")
        self.count = 0
        if not os.path.exists(os.path.join(self.template, ".complete")):
            self._build()
            open(os.path.join(self.template, ".complete"), "w").close()

    def _build(self):
        r = self.template
        for d in ("bin", "tmp", "dev"):
            os.makedirs(os.path.join(r, d), exist_ok=True)
        libs = set()
        bins = []
        for b in TOOLS:
            p = shutil.which(b, path="/usr/bin:/bin")
            if p is None:
                continue
            p = os.path.realpath(p)
            shutil.copy2(p, os.path.join(r, "bin", b))
            bins.append(p)
        out = subprocess.run(["ldd"] + bins, stdout=subprocess.PIPE, stderr=subprocess.DEVNULL, text=True).stdout
        for tok in out.split():
            if tok.startswith("/") and not tok.endswith(":"):
                libs.add(tok)
        for lib in sorted(libs):
            dst = r + lib
            os.makedirs(os.path.dirname(dst), exist_ok=True)
            if not os.path.exists(dst):
                shutil.copy2(os.path.realpath(lib), dst)
        for link, tgt in (("sh", "dash"), ("awk", "mawk")):
            lp = os.path.join(r, "bin", link)
            if not os.path.lexists(lp):
                os.symlink(tgt, lp)
        null = os.path.join(r, "dev", "null")
        if not os.path.exists(null):
            try:
                os.mknod(null, 0o666 | stat.S_IFCHR, os.makedev(1, 3))
                os.chmod(null, 0o666)
            except OSError:
                open(null, "w").close()   # a plain file swallows output just as well

    def new_root(self, name: str) -> str:
        self.count += 1
        root = os.path.join(self.base, "%s_%d" % (name, self.count))
        subprocess.run(["cp", "-al", self.template, root], check=True)
        os.unlink(os.path.join(root, ".complete"))
        os.chmod(os.path.join(root, "tmp"), 0o1777)
        return root


def _register():
    from streamflow.deployment.connector import connector_classes
    if TYPE not in connector_classes:
        connector_classes[TYPE] = _connector_class()


_CLS = None


def _connector_class():
    global _CLS
    if _CLS is not None:
        return _CLS
    from streamflow.core import utils
    from streamflow.core.exception import WorkflowExecutionException
    from streamflow.core.scheduling import AvailableLocation
    from streamflow.deployment.connector.base import (
        BaseConnector, SubprocessShell, SubprocessStreamReaderWrapperContextManager,
        SubprocessStreamWriterWrapperContextManager)
    from streamflow.deployment.shell import _build_shell_command

    class GuardedShell(SubprocessShell):
        """The real SubprocessShell; refuses command texts that would leave the shell waiting."""
        __slots__ = ("owner",)

        async def execute(self, command, environment=None, workdir=None, capture_output=False, timeout=None):
            text = _build_shell_command(end_marker="SF_CMD_END_probe", command=command,
                                        shell_class="probe", shell_cmd=["sh"], environment=environment,
                                        workdir=workdir)
            self.owner.spend(" ".join(command))
            if _may_be_incomplete(text):
                p = await asyncio.create_subprocess_exec("/bin/sh", "-n", "-c", text, stdin=asyncio.subprocess.DEVNULL,
                                                         stdout=asyncio.subprocess.DEVNULL,
                                                         stderr=asyncio.subprocess.PIPE)
                _, err = await p.communicate()
                if p.returncode != 0 and (b"Unterminated quoted string" in err or b"end of file unexpected" in err
                                          or b"EOF" in err):
                    raise ShellWouldBlock(" ".join(command))
            return await super().execute(command, environment, workdir, capture_output, timeout)

    class ShellRemoteConnector(BaseConnector):
        def __init__(self, deployment_name: str, config_dir: str, roots: MutableMapping[str, str],
                     transferBufferSize: int = 2 ** 16, guard: bool = True):
            super().__init__(deployment_name, config_dir, transferBufferSize)
            self.roots = dict(roots)
            self.guard = guard
            self.commands: list = []       # every command text sent to a location (diagnostics)
            self.budget: int | None = None  # commands the current call may still issue (None: unlimited)

        def spend(self, text: str):
            self.commands.append(text)
            if self.budget is not None:
                self.budget -= 1
                if self.budget < 0:
                    raise CommandBudgetExceeded(text)

        @classmethod
        def get_schema(cls) -> str:
            return json.dumps({"$schema": "https://json-schema.org/draft/2020-12/schema",
                               "$id": "https://streamflow.di.unito.it/schemas/verif/shell_remote.json",
                               "type": "object",
                               "properties": {"roots": {"type": "object"}, "transferBufferSize": {"type": "integer"},
                                              "guard": {"type": "boolean"}},
                               "additionalProperties": False})

        def _get_run_command(self, command: str, location, interactive: bool = False) -> MutableSequence[str]:
            # argv for exec (no local shell in between): the remote `sh` parses `command` verbatim
            return [CHROOT, self.roots[location.name], "/bin/sh", "-c", command]

        def _env(self):
            return dict(ENV)

        async def _create_shell(self, command, location):
            process = await asyncio.create_subprocess_exec(
                CHROOT, self.roots[location.name], "/bin/sh", env=self._env(),
                stdin=asyncio.subprocess.PIPE, stdout=asyncio.subprocess.PIPE, stderr=asyncio.subprocess.DEVNULL)
            cls = GuardedShell if self.guard else SubprocessShell
            sh = cls(command=command, buffer_size=self.transferBufferSize, process=process)
            if self.guard:
                sh.owner = self
            return sh

        async def deploy(self, external: bool) -> None:
            for r in self.roots.values():
                if not os.path.isdir(r):
                    raise WorkflowExecutionException("missing root %s" % r)

        async def get_available_locations(self, service=None):
            return {n: AvailableLocation(name=n, deployment=self.deployment_name, service=service,
                                         hostname="localhost", local=False, slots=1, hardware=None)
                    for n in self.roots}

        async def get_stream_reader(self, command, location):
            self.spend(" ".join(command))
            return SubprocessStreamReaderWrapperContextManager(coro=asyncio.create_subprocess_exec(
                *self._get_run_command(" ".join(command), location), env=self._env(),
                stdin=asyncio.subprocess.DEVNULL, stdout=asyncio.subprocess.PIPE, stderr=asyncio.subprocess.DEVNULL))

        async def get_stream_writer(self, command, location):
            self.spend(" ".join(command))
            return SubprocessStreamWriterWrapperContextManager(coro=asyncio.create_subprocess_exec(
                *self._get_run_command(" ".join(command), location), env=self._env(),
                stdin=asyncio.subprocess.PIPE, stdout=asyncio.subprocess.DEVNULL, stderr=asyncio.subprocess.DEVNULL))

        async def run(self, location, command, environment=None, workdir=None, stdin=None,
                      stdout=asyncio.subprocess.STDOUT, stderr=asyncio.subprocess.STDOUT, capture_output=False,
                      timeout=None, job_name=None):
            if job_name is None and stdin is None:
                with contextlib.suppress(WorkflowExecutionException):
                    return await utils.run_in_shell(
                        shell=await self.get_shell(command=["sh"], location=location), location=location,
                        command=command, environment=environment, workdir=workdir,
                        capture_output=capture_output, timeout=timeout)
            cmd = utils.create_command(self.__class__.__name__, command, environment, workdir, stdin, stdout, stderr)
            self.spend(cmd)
            proc = await asyncio.create_subprocess_exec(
                *self._get_run_command(cmd, location), env=self._env(), stdin=asyncio.subprocess.DEVNULL,
                stdout=asyncio.subprocess.PIPE if capture_output else asyncio.subprocess.DEVNULL,
                stderr=asyncio.subprocess.DEVNULL)
            if capture_output:
                out, _ = await asyncio.wait_for(proc.communicate(), timeout=timeout)
                return out.decode(errors="replace").strip(), proc.returncode
            await asyncio.wait_for(proc.wait(), timeout=timeout)
            return None

    _CLS = ShellRemoteConnector
    return _CLS


async def deploy(context, toolbox: Toolbox, deployment: str, location_names, transfer_buffer: int = 2 ** 16,
                 guard: bool = True):
    """Deploy one shell-remote deployment with the given location names through the context's real
    deployment manager.  Returns (connector, {name: ExecutionLocation}, {name: real root dir})."""
    from streamflow.core.deployment import DeploymentConfig
    _register()
    roots = {n: toolbox.new_root("%s_%s" % (deployment, n)) for n in location_names}
    cfg = DeploymentConfig(name=deployment, type=TYPE,
                           config={"roots": roots, "transferBufferSize": transfer_buffer, "guard": guard},
                           external=False, lazy=False, workdir="/tmp")
    await context.deployment_manager.deploy(cfg)
    conn = context.deployment_manager.get_connector(deployment)
    av = await conn.get_available_locations()
    return conn, {n: av[n].location for n in location_names}, roots


async def deploy_local(context):
    """The engine's own local deployment (LocalConnector, location __LOCAL__)."""
    from streamflow.core.deployment import LocalTarget
    await context.deployment_manager.deploy(LocalTarget().deployment)
    conn = context.deployment_manager.get_connector("__LOCAL__")
    av = await conn.get_available_locations()
    return conn, next(iter(av.values())).location


# ------------------------------------------------------------------------------------------------
# Looking at a location from outside (os.* only; never through StreamFlow)
# ------------------------------------------------------------------------------------------------

def real(root: str | None, path: str) -> str:
    """Real path of `path` as seen inside the location rooted at `root` (None: the local machine)."""
    return path if root is None else root + path


def snapshot(root: str | None, top: str, with_content: bool = True) -> dict:
    """{relative path: entry} for everything below `top` (links are never followed).
    entry = kind + mode + content | link target (+ inode number for regular files)."""
    out = {}
    base = real(root, top)
    try:
        st = os.lstat(base)
    except OSError:
        return out
    if not stat.S_ISDIR(st.st_mode):
        out["."] = _entry(base, st, with_content)
        return out
    stack = [""]
    while stack:
        rel = stack.pop()
        p = os.path.join(base, rel) if rel else base
        for n in os.listdir(p):
            r = os.path.join(rel, n) if rel else n
            q = os.path.join(base, r)
            st = os.lstat(q)
            out[r] = _entry(q, st, with_content)
            if stat.S_ISDIR(st.st_mode):
                stack.append(r)
    return out


def _entry(p, st, with_content):
    if stat.S_ISLNK(st.st_mode):
        return {"kind": "l", "target": os.readlink(p)}
    if stat.S_ISDIR(st.st_mode):
        return {"kind": "d", "mode": stat.S_IMODE(st.st_mode)}
    if stat.S_ISREG(st.st_mode):
        e = {"kind": "f", "mode": stat.S_IMODE(st.st_mode), "ino": st.st_ino, "nlink": st.st_nlink}
        if with_content:
            with open(p, "rb") as f:
                e["content"] = f.read()
        else:
            e["size"] = st.st_size
        return e
    return {"kind": "?", "mode": stat.S_IMODE(st.st_mode)}


def stray(root: str) -> list:
    """Entries of a location's root directory that neither the tool set nor the test put there
    (a wrongly quoted command creates files relative to the shell's working directory `/`)."""
    return sorted(n for n in os.listdir(root) if n not in TOOL_DIRS and n != "tmp")


def resolve_in(root: str | None, path: str, limit: int = 40):
    """realpath inside a location: absolute link targets are relative to the location's root.
    Returns the location-relative absolute path or None (dangling / loop)."""
    parts = [p for p in path.split("/") if p]
    cur = "/"
    n = 0
    while parts:
        part = parts.pop(0)
        if part == ".":
            continue
        if part == "..":
            cur = os.path.dirname(cur)
            continue
        cand = os.path.join(cur, part)
        rp = real(root, cand)
        if os.path.islink(rp):
            n += 1
            if n > limit:
                return None
            tgt = os.readlink(rp)
            tparts = [p for p in tgt.split("/") if p]
            if tgt.startswith("/"):
                cur = "/"
            parts = tparts + parts
        elif os.path.lexists(rp):
            cur = cand
        else:
            return None
    return cur


def probe(scratch: str) -> dict:
    """Is the fake usable here?  chroot + tool set work; an unterminated quote really blocks a
    persistent `sh` (what ShellWouldBlock stands for)."""
    info = {}
    tb = Toolbox(os.path.join(scratch, "probe"))
    root = tb.new_root("p")
    p = subprocess.run([CHROOT, root, "/bin/sh", "-c",
                        "echo x | tee /tmp/f > /dev/null && cat /tmp/f && tar --version | head -1 && "
                        "find /tmp -type f && sha1sum /tmp/f | awk '{print $1}' && readlink -f /tmp/f"],
                       env=ENV, stdout=subprocess.PIPE, stderr=subprocess.STDOUT, text=True)
    info["chroot"] = p.returncode == 0 and os.path.exists(root + "/tmp/f")
    info["chroot_out"] = p.stdout
    # the hang is real: feed an unterminated quote followed by the end marker to a plain persistent sh
    sh = subprocess.Popen([CHROOT, root, "/bin/sh"], env=ENV, stdin=subprocess.PIPE, stdout=subprocess.PIPE,
                          stderr=subprocess.DEVNULL)
    sh.stdin.write(b"mkdir /tmp/a'b 2>&1\necho \"SF_CMD_END_x:$?\"\n")
    sh.stdin.flush()
    import select
    ready, _, _ = select.select([sh.stdout], [], [], 1.0)
    info["unterminated_quote_blocks"] = not ready
    sh.kill()
    sh.wait()
    shutil.rmtree(tb.base, ignore_errors=True)
    return info
