"""Binding of the `Persistence` module to the real SqliteDatabase (C09) - table adapters, truth reads, replay.

Abstract values of the model are mapped to concrete column values:
  top    = ver  ->  an int (100 + ver) or a string ("v<ver>") in the table's scalar column
  nested = ver  ->  {"v": ver, "deep": {"l": [ver], "d": {}}} in the table's JSON column
  Caller (0)    ->  what the caller writes into a row it was given: CALLER_TOP / "v" = 0 and 0 appended to "l"
The truth is read through a SECOND, fresh `sqlite3` connection to the same file after committing the
connection of the database under test (StreamFlow commits only on close(); committing does not touch the caches).
"""
from __future__ import annotations

import json
import sqlite3

CALLER_INT = -1
CALLER_STR = "CALLER"


def nested_value(ver):
    return {"v": ver, "deep": {"l": [ver], "d": {}}}


def abstract_nested(x):
    """concrete nested object -> model value: ver, 0 (caller garbage inside) or '?'."""
    try:
        if isinstance(x, dict) and set(x) - {"by"} == {"v", "deep"}:
            if x["v"] == 0 or 0 in x["deep"]["l"]:
                return 0
            if x == nested_value(x["v"]):
                return x["v"]
    except Exception:
        pass
    return "?"


def has_caller_garbage(x, depth=0):
    if depth > 6:
        return False
    if isinstance(x, dict):
        return any(has_caller_garbage(v, depth + 1) for v in x.values()) or x.get("v", None) == 0 and "deep" in x
    if isinstance(x, (list, tuple)):
        return any((v == 0 and v is not False) or has_caller_garbage(v, depth + 1) for v in x)
    return False


class Env:
    """One real database on a file plus the parent rows every table needs (foreign keys)."""

    def __init__(self, path):
        self.path = path
        self.context = None
        self.db = None
        self.parents = {}
        self.serial = 0
        self.parent_serial = 0
        self.port_tokens = {}

    async def open(self):
        from vh.sut import context as sctx
        self.context = sctx.build(db=self.path)
        self.db = self.context.database
        await self.new_parents()
        return self

    async def new_test(self):
        """Called at the start of every replayed history: fresh parent rows now and then, so that the list-valued
        getters (get_workflow_steps ...) stay small."""
        self.serial += 1
        if self.serial % 16 == 0:
            await self.new_parents()

    async def new_parents(self):
        from streamflow.core.workflow import Port, Token, Workflow
        from streamflow.workflow.step import ScatterStep
        db = self.db
        p = self.parents
        self.parent_serial += 1
        p["workflow"] = await db.add_workflow(name="parent-wf-%d" % self.parent_serial, params={"config": {}, "output_ports": {}}, status=0, type=Workflow)
        p["port"] = await db.add_port(name="parent-port", workflow_id=p["workflow"], type=Port, params={})
        p["step"] = await db.add_step(name="parent-step", workflow_id=p["workflow"], status=0, type=ScatterStep, params={})
        p["deployment"] = await db.add_deployment(name="parent-dep", type="local", config={}, external=True, lazy=False,
                                                  scheduling_policy={"name": "p", "type": "data_locality", "config": {}},
                                                  workdir=None, wraps=None)
        p["token"] = await db.add_token(tag="0", type=Token, value=None, port=p["port"])

    async def commit(self):
        async with self.db.connection as conn:
            await conn.commit()

    def sql(self, query, args=()):
        """Direct SQL through a fresh, uncached connection (call commit() first)."""
        conn = sqlite3.connect("file:%s?mode=ro" % self.path, uri=True, timeout=20)
        try:
            conn.row_factory = sqlite3.Row
            return [dict(r) for r in conn.execute(query, args).fetchall()]
        finally:
            conn.close()

    async def close(self):
        try:
            await self.context.close()
        except Exception:
            pass


class Table:
    """Adapter of one table.  kind: A cached+updatable, B uncached+updatable, C cached, D uncached."""
    name = ""
    kind = "A"
    getter = ""
    top_col = ""
    nested_col = None
    top_is_int = False
    json_cols = ()
    predict = True          # compare the abstraction of what was read with the model's prediction

    top_offset = 100

    def top_value(self, ver):
        return self.top_offset + ver if self.top_is_int else "v%d" % ver

    def abstract_top(self, v):
        if self.caller_origin(v) is not None:
            return 0
        try:
            if self.top_is_int and isinstance(v, int):
                return v - self.top_offset
            if not self.top_is_int and isinstance(v, str) and v.startswith("v"):
                return int(v[1:])
        except Exception:
            pass
        return "?"

    def abstract(self, row):
        if not isinstance(row, dict):
            return {"top": "?", "nested": "?"}
        n = row.get(self.nested_col)
        return {"top": self.abstract_top(row.get(self.top_col)),
                "nested": abstract_nested(n) if self.nested_is_json() else self.abstract_nested_scalar(n)}

    def nested_is_json(self):
        return True

    def abstract_nested_scalar(self, v):
        return "?"

    # --- calls into the database under test -------------------------------------------------
    async def add(self, env, ver):
        raise NotImplementedError

    async def update(self, env, cid, field, ver):
        col = self.top_col if field == "top" else self.nested_col
        val = self.top_value(ver) if field == "top" else json.dumps(nested_value(ver))
        return await getattr(env.db, "update_" + self.name)(cid, {col: val})

    async def get(self, env, cid):
        return await getattr(env.db, self.getter)(cid)

    def normalise(self, got):
        """what the getter returned -> comparable python value"""
        if isinstance(got, sqlite3.Row):
            return dict(got)
        return got

    # --- the caller's own mutations -----------------------------------------------------------
    # The garbage a caller writes names the reader that handed the row out (origin None: get_<t> itself), so that a
    # later read that returns it says through which reader the cache was reached.
    bulk_names = ()

    def caller_top(self, origin):
        k = 0 if origin is None else 1 + self.bulk_names.index(origin)
        return CALLER_INT - k if self.top_is_int else (CALLER_STR if not k else "%s:%s" % (CALLER_STR, origin))

    def caller_origin(self, v):
        """None: not caller garbage; otherwise the name of the reader whose row was modified"""
        single = self.getter.split("/")[0]
        if isinstance(v, bool):
            return None
        if isinstance(v, int) and v <= CALLER_INT:
            k = CALLER_INT - v
            return single if k == 0 else (self.bulk_names[k - 1] if k <= len(self.bulk_names) else "?")
        if isinstance(v, str) and v.startswith(CALLER_STR):
            return v.partition(":")[2] or single
        return None

    def mut_top(self, row, origin=None):
        try:
            row[self.top_col] = self.caller_top(origin)
            return True
        except TypeError:
            return False         # immutable row object (sqlite3.Row): nothing the caller can change

    def mut_nested(self, row, origin=None):
        try:
            n = row[self.nested_col]
            if not isinstance(n, dict):
                return False
            if n["v"] != 0:
                n["v"] = 0
                n["deep"]["l"].append(0)
                if origin is not None:
                    n["by"] = origin
            return True
        except (TypeError, KeyError):
            return False

    # --- bulk / relational readers that return rows of this table by another path ---------------
    async def bulk(self, env, cids):
        """[(reader name, [row object or None per cid], what it returned (normalised), the truth)]; commits before
        reading the truth"""
        return []

    async def extras(self, env, cids):
        """read-only derived readers compared at the end of a history: [(label, got, truth)]"""
        return []

    async def secondary(self, env, cids):
        out = [(g, got, truth) for g, _, got, truth in await self.bulk(env, list(cids))]
        return out + list(await self.extras(env, list(cids)))

    # --- the truth -------------------------------------------------------------------------------
    def truth(self, env, cid):
        rows = env.sql("SELECT * FROM %s WHERE id = ?" % self.name, (cid,))
        if not rows:
            return None
        row = rows[0]
        for c in self.json_cols:
            row[c] = json.loads(row[c]) if row[c] is not None else None
        return row


class StepT(Table):
    name, kind, getter, top_col, nested_col, top_is_int, json_cols = "step", "A", "get_step", "status", "params", True, ("params",)

    async def add(self, env, ver):
        from streamflow.workflow.step import ScatterStep
        return await env.db.add_step(name="s%d" % ver, workflow_id=env.parents["workflow"], status=self.top_value(ver),
                                     type=ScatterStep, params=nested_value(ver))

    bulk_names = ("get_workflow_steps",)

    async def bulk(self, env, cids):
        rows = {r["id"]: r for r in await env.db.get_workflow_steps(env.parents["workflow"])}
        await env.commit()
        return [("get_workflow_steps", [rows.get(c) for c in cids], [_plain(rows.get(c)) for c in cids], [self.truth(env, c) for c in cids])]


class PortT(Table):
    name, kind, getter, top_col, nested_col, top_is_int, json_cols = "port", "A", "get_port", "name", "params", False, ("params",)

    async def add(self, env, ver):
        from streamflow.core.workflow import Port
        return await env.db.add_port(name=self.top_value(ver), workflow_id=env.parents["workflow"], type=Port,
                                     params=nested_value(ver))

    bulk_names = ("get_workflow_ports", "get_port_from_token")

    async def bulk(self, env, cids):
        from streamflow.core.workflow import Token
        rows = {r["id"]: r for r in await env.db.get_workflow_ports(env.parents["workflow"])}
        via = []
        for c in cids:          # a token on each port, then the port row through the join
            tok = env.port_tokens.get(c)
            if tok is None:
                tok = env.port_tokens[c] = await env.db.add_token(tag="0", type=Token, value=None, port=c)
            via.append(await env.db.get_port_from_token(tok))
        await env.commit()
        truth = [self.truth(env, c) for c in cids]
        return [("get_workflow_ports", [rows.get(c) for c in cids], [_plain(rows.get(c)) for c in cids], truth),
                ("get_port_from_token", via, [_plain(r) for r in via], truth)]


class DeploymentT(Table):
    name, kind, getter, top_col, nested_col, top_is_int = "deployment", "A", "get_deployment", "workdir", "config", False
    json_cols = ("config", "scheduling_policy", "wraps")

    async def add(self, env, ver):
        return await env.db.add_deployment(name="d%d" % ver, type="local", config=nested_value(ver), external=bool(ver % 2),
                                           lazy=not bool(ver % 2),
                                           scheduling_policy={"name": "p", "type": "data_locality", "config": {"k": [ver]}},
                                           workdir=self.top_value(ver),
                                           wraps={"deployment": "outer", "service": "s"} if ver % 2 else None)


class TargetT(Table):
    name, kind, getter, top_col, nested_col, top_is_int, json_cols = "target", "A", "get_target", "workdir", "params", False, ("params",)

    async def add(self, env, ver):
        from streamflow.core.deployment import Target
        return await env.db.add_target(deployment=env.parents["deployment"], type=Target, params=nested_value(ver),
                                       locations=ver, service="svc", workdir=self.top_value(ver))


class FilterT(Table):
    name, kind, getter, top_col, nested_col, top_is_int, json_cols = "filter", "A", "get_filter", "name", "config", False, ("config",)

    async def add(self, env, ver):
        return await env.db.add_filter(name=self.top_value(ver), type="shuffle", config=nested_value(ver))


class WorkflowT(Table):
    name, kind, getter, top_col, nested_col, top_is_int, json_cols = "workflow", "B", "get_workflow", "status", "params", True, ("params",)
    top_offset = 0          # status values stay inside the Status enum (get_workflows_list renders them)

    async def add(self, env, ver):
        from streamflow.core.workflow import Workflow
        return await env.db.add_workflow(name="w%d_%d" % (env.serial, ver), params=nested_value(ver), status=self.top_value(ver), type=Workflow)

    bulk_names = ("get_workflows_by_name", "get_workflows_by_name:last_only")

    async def bulk(self, env, cids):
        await env.commit()
        names = [self.truth(env, c)["name"] for c in cids]          # names are unique per history (w<serial>_<ver>)
        a = [await env.db.get_workflows_by_name(n) for n in names]
        b = [await env.db.get_workflows_by_name(n, last_only=True) for n in names]
        await env.commit()
        truth = [self.truth(env, c) for c in cids]
        one = lambda rows, c: next((r for r in rows if r["id"] == c), None)  # noqa
        ra, rb = [one(rows, c) for rows, c in zip(a, cids)], [one(rows, c) for rows, c in zip(b, cids)]
        return [("get_workflows_by_name", ra, [_plain(r) for r in ra], truth),
                ("get_workflows_by_name:last_only", rb, [_plain(r) for r in rb], truth)]

    async def extras(self, env, cids):
        # get_workflows_list(name) formats start/end times and raises TypeError on a workflow that never started
        # (NULL times) - with or without caches, so it says nothing about C09; the grouped listing is compared instead
        names = {self.truth(env, c)["name"] for c in cids}
        got = sorted((dict(r) for r in await env.db.get_workflows_list(None) if r["name"] in names), key=lambda r: r["name"])
        truth = sorted((r for r in env.sql("SELECT name, type, COUNT(*) AS num FROM workflow GROUP BY name, type") if r["name"] in names),
                       key=lambda r: r["name"])
        return [("get_workflows_list", got, truth)]


class ExecutionT(Table):
    """Rows are sqlite3.Row objects (immutable); `nested` is the plain integer column job_token."""
    name, kind, getter, top_col, nested_col, top_is_int = "execution", "B", "get_execution", "cmd", "job_token", False

    def nested_is_json(self):
        return False

    def abstract_nested_scalar(self, v):
        return v - 100 if isinstance(v, int) else "?"

    async def add(self, env, ver):
        return await env.db.add_execution(step_id=env.parents["step"], job_token_id=100 + ver, cmd=self.top_value(ver))

    async def update(self, env, cid, field, ver):
        upd = {"cmd": self.top_value(ver)} if field == "top" else {"job_token": 100 + ver}
        return await env.db.update_execution(cid, upd)

    bulk_names = ("get_executions_by_step",)

    async def bulk(self, env, cids):
        rows = {r["id"]: r for r in await env.db.get_executions_by_step(env.parents["step"])}
        await env.commit()
        return [("get_executions_by_step", [rows.get(c) for c in cids], [_plain(rows.get(c)) for c in cids], [self.truth(env, c) for c in cids])]

    async def extras(self, env, cids):
        got = await env.db.get_reports("parent-wf-%d" % env.parent_serial)
        rows = env.sql("SELECT c.id, s.name, c.start_time, c.end_time FROM step AS s, execution AS c WHERE s.id = c.step AND s.workflow = ?",
                       (env.parents["workflow"],))
        return [("get_reports", [sorted(x, key=lambda r: r["id"]) for x in got], [sorted(rows, key=lambda r: r["id"])] if rows else [])]


class TokenT(Table):
    name, kind, getter, top_col, nested_col, top_is_int, json_cols = "token", "C", "get_token", "tag", "value", False, ("value",)

    async def add(self, env, ver):
        from streamflow.core.workflow import Token
        return await env.db.add_token(tag=self.top_value(ver), type=Token, value=nested_value(ver), port=env.parents["port"],
                                      recoverable=bool(ver % 2))

    def truth(self, env, cid):
        rows = env.sql("SELECT * FROM token WHERE id = ?", (cid,))
        if not rows:
            return None
        row = rows[0]
        row["value"] = json.loads(row["value"])
        row["recoverable"] = bool(env.sql("SELECT COUNT(*) AS n FROM recoverable WHERE id = ?", (cid,))[0]["n"])
        return row

    bulk_names = ("get_port_tokens",)

    async def bulk(self, env, cids):
        got = [i for i in await env.db.get_port_tokens(env.parents["port"]) if i in cids]
        await env.commit()
        truth = [r["id"] for r in env.sql("SELECT id FROM token WHERE port = ?", (env.parents["port"],)) if r["id"] in cids]
        return [("get_port_tokens", [None for _ in cids], sorted(got), sorted(truth))]      # ids only: nothing a caller could modify


class ProvenanceT(Table):
    """Relation table.  `id` i stands for the i-th (dependee, depender) pair; reads are the two list getters."""
    name, kind, getter, predict = "provenance", "D", "get_dependees/get_dependers", False

    async def add(self, env, ver):
        from streamflow.core.workflow import Token
        a = await env.db.add_token(tag="a%d" % ver, type=Token, value=ver, port=env.parents["port"])
        b = await env.db.add_token(tag="b%d" % ver, type=Token, value=ver, port=env.parents["port"])
        await env.db.add_provenance(inputs=[a, env.parents["token"]], token=b)
        return (a, b)

    async def get(self, env, cid):
        a, b = cid
        return {"dependees": await env.db.get_dependees(b), "dependers": await env.db.get_dependers(a)}

    def normalise(self, got):
        key = lambda r: (r["dependee"], r["depender"])  # noqa
        return {k: sorted((dict(r) for r in v), key=key) for k, v in got.items()}

    def mut_top(self, row, origin=None):
        try:
            row["dependees"].append({"dependee": 0, "depender": 0})
            return True
        except Exception:
            return False

    def mut_nested(self, row, origin=None):
        try:
            row["dependees"][0]["dependee"] = 0
            return True
        except Exception:
            return False

    def truth(self, env, cid):
        a, b = cid
        key = lambda r: (r["dependee"], r["depender"])  # noqa
        return {"dependees": sorted(env.sql("SELECT * FROM provenance WHERE depender = ?", (b,)), key=key),
                "dependers": sorted(env.sql("SELECT * FROM provenance WHERE dependee = ?", (a,)), key=key)}


class DependencyT(Table):
    name, kind, getter, predict = "dependency", "D", "get_input_ports/get_output_ports/get_input_steps/get_output_steps", False

    async def add(self, env, ver):
        from streamflow.core.persistence import DependencyType
        from streamflow.core.workflow import Port
        from streamflow.workflow.step import ScatterStep
        s = await env.db.add_step(name="ds%d" % ver, workflow_id=env.parents["workflow"], status=0, type=ScatterStep, params={})
        pi = await env.db.add_port(name="di%d" % ver, workflow_id=env.parents["workflow"], type=Port, params={})
        po = await env.db.add_port(name="do%d" % ver, workflow_id=env.parents["workflow"], type=Port, params={})
        await env.db.add_dependency(step=s, port=pi, type=DependencyType.INPUT, name="in%d" % ver)
        await env.db.add_dependency(step=s, port=po, type=DependencyType.OUTPUT, name="out%d" % ver)
        await env.db.add_dependency(step=s, port=po, type=DependencyType.OUTPUT, name="ignored-duplicate")
        return (s, pi, po)

    async def get(self, env, cid):
        s, pi, po = cid
        return {"input_ports": await env.db.get_input_ports(s), "output_ports": await env.db.get_output_ports(s),
                "output_steps": await env.db.get_output_steps(pi), "input_steps": await env.db.get_input_steps(po)}

    def normalise(self, got):
        key = lambda r: (r["step"], r["port"])  # noqa
        return {k: sorted((dict(r) for r in v), key=key) for k, v in got.items()}

    def mut_top(self, row, origin=None):
        try:
            row["input_ports"].append({"step": 0})
            return True
        except Exception:
            return False

    def mut_nested(self, row, origin=None):
        try:
            row["input_ports"][0]["name"] = CALLER_STR
            return True
        except Exception:
            return False

    def truth(self, env, cid):
        s, pi, po = cid
        q = "SELECT * FROM dependency WHERE %s = ? AND type = ?"
        return {"input_ports": env.sql(q % "step", (s, 0)), "output_ports": env.sql(q % "step", (s, 1)),
                "output_steps": env.sql(q % "port", (pi, 0)), "input_steps": env.sql(q % "port", (po, 1))}


def _plain(r):
    return dict(r) if isinstance(r, sqlite3.Row) else r


TABLES = [StepT(), PortT(), DeploymentT(), TargetT(), FilterT(), WorkflowT(), ExecutionT(), TokenT(), ProvenanceT(), DependencyT()]
BY_NAME = {t.name: t for t in TABLES}

def cfg_text(depth, deep=True, gen=True, invariants=(), two=False, max_id=2, max_rets=2, bulk_fills="{}"):
    """kinds (default): the four kinds of table A cached+updatable, B updatable, C cached, D plain, one table per
    history (focus).  two: histories over two cached, updatable tables a and b.
    deep=True, bulk_fills="{}" is the code as it is (deep-copying cached getters since 1d9dc38, bulk readers leave the
    caches alone); deep=False / bulk_fills='{"A"}' are the two defect models."""
    if two:
        tables, cached, upd, bulk, suffix = '{"a", "b"}', '{"a", "b"}', '{"a", "b"}', '{"a", "b"}', "All"
    else:
        tables, cached, upd, bulk, suffix = '{"A", "B", "C", "D"}', '{"A", "C"}', '{"A", "B"}', '{"A", "B", "C"}', "F"
    text = ('CONSTANTS Tables = %s  Cached = %s  Updatable = %s  Bulk = %s  BulkFills = %s  MaxId = %d  MaxRets = %d  MaxDepth = %d  DeepCopy = %s\n'
            'CONSTANT Pops <- PopsSelf\nINIT Init%s\nNEXT %s%s\nVIEW %s\n') % (
        tables, cached, upd, bulk, bulk_fills, max_id, max_rets, depth, "TRUE" if deep else "FALSE", suffix,
        "GenNext" if gen else "Next", suffix, "ViewGenF" if gen else "ViewF")
    for i in invariants:
        text += "INVARIANT %s\n" % i
    return text


# ------------------------------------------------------------------------------------------------
# replay of model histories on the real database
# ------------------------------------------------------------------------------------------------

def classify(tab, got, truth, last_write, reader=None):
    """Signature of a read that differs from the database: which reader returned it, which way.  When the wrong value
    is the caller's own garbage, the signature names the reader whose returned row reached the cache (the garbage says
    through which reader it was handed out)."""
    g = reader or (tab.getter.split("/")[0] if tab.kind != "D" else "get_" + tab.name)
    if isinstance(got, BaseException):
        return "raise:%s:%s" % (g, type(got).__name__)
    if not isinstance(got, dict) or not isinstance(truth, dict):
        return None if got == truth else "mismatch:%s:shape" % g
    cols = sorted(c for c in set(got) | set(truth) if got.get(c, "<absent>") != truth.get(c, "<absent>")
                  or type(got.get(c)) is not type(truth.get(c)))
    if not cols:
        return None
    c = tab.nested_col if tab.nested_col in cols else (tab.top_col if tab.top_col in cols else cols[0])
    v = got.get(c, "<absent>")
    if tab.kind == "D":
        return "mismatch:%s:%s" % (g, c)
    seen = "" if reader is None else ":seen-by-%s" % reader
    if c == tab.nested_col and tab.nested_is_json():
        if has_caller_garbage(v):
            origin = v.get("by") if isinstance(v, dict) and v.get("by") else tab.getter.split("/")[0]
            return "aliasing:%s:nested-%s-shared-with-cache%s" % (origin, c, seen)
        return "stale:%s:%s-after-%s" % (g, c, last_write or "add")
    origin = tab.caller_origin(v) if c == tab.top_col else None
    if origin is not None:
        return "aliasing:%s:returned-row-is-cached-object%s" % (origin, seen)
    if c in (tab.top_col, tab.nested_col):
        return "stale:%s:%s-after-%s" % (g, c, last_write or "add")
    return "mismatch:%s:%s" % (g, c)


def classify_bulk(tab, reader, got, truth, last_write=None):
    """first signature among the rows of a bulk read (lists aligned by id), None when equal"""
    if got == truth and all(type(a) is type(b) for a, b in zip(got, truth)):
        return None
    if isinstance(got, list) and isinstance(truth, list) and len(got) == len(truth):
        for a, b in zip(got, truth):
            sig = classify(tab, a, b, last_write, reader=reader) if (isinstance(a, dict) or isinstance(b, dict)) else (None if a == b else "mismatch:%s:ids" % reader)
            if sig:
                return sig
        return None
    return "mismatch:%s:rows" % reader


class Replayer:
    """Replays one model history (list of transitions of MC_Persistence) for one table on a real database."""

    def __init__(self, ctx, env, tab, max_rets=2, label=""):
        self.ctx, self.env, self.tab, self.max_rets, self.label = ctx, env, tab, max_rets, label

    async def _read(self, cid):
        try:
            got = await self.tab.get(self.env, cid)
        except Exception as e:  # an exception of the code under test is an observation
            return e, e
        return got, self.tab.normalise(got)

    async def run(self, path, observe_all=True):
        """path: transitions (dicts with act, args, obs, reads, truth).  Returns number of reads compared."""
        tab, env, ctx = self.tab, self.env, self.ctx
        ids, rets, last_write, nreads = [], [], {}, 0
        await env.new_test()
        hist = history_of(path)
        detail = {"table": tab.name, "history": hist, "label": self.label}

        def bad(sig, what, **kw):
            ctx.violation(sig, dict(detail, **kw), what)

        for n, tr in enumerate(path):
            act, args = tr["act"], tr["args"]
            try:
                if act == "add":
                    ids.append(await tab.add(env, tr["truth"][tab.kind][-1]["top"]))
                elif act == "update":
                    i, f = args[1], args[2]
                    await tab.update(env, ids[i - 1], f, tr["truth"][tab.kind][i - 1][f])
                    last_write[i] = "update_%s" % tab.name
                elif act == "get":
                    i = args[1]
                    raw, got = await self._read(ids[i - 1])
                    await env.commit()
                    truth = tab.truth(env, ids[i - 1])
                    nreads += 1
                    sig = classify(tab, got, truth, last_write.get(i))
                    if sig:
                        bad(sig, "%s(%s) after %s returned %r, a fresh connection reads %r" % (
                            tab.getter, i, hist[:n], got if not isinstance(got, BaseException) else repr(got), truth),
                            step=n, got=repr(got), truth=truth, predicted_by_model=tab.abstract(got) == _obs(tr) if tab.predict else None)
                    elif tab.predict and tab.abstract(got) != _obs(tr):
                        ctx.count("asis_model_predicts_wrong_read_code_reads_right")   # e.g. a repaired tree
                    rets.append((i, [(None, raw)]))
                    rets[:] = rets[-self.max_rets:]
                elif act == "getall":
                    # every bulk / relational reader of the table; the caller keeps the rows of all of them
                    res = await tab.bulk(env, ids)
                    for reader, objs, got, truth in res:
                        nreads += 1
                        sig = classify_bulk(tab, reader, got, truth)
                        if sig:
                            bad(sig, "%s after %s returned %r, a fresh connection reads %r" % (reader, hist[:n], got, truth),
                                step=n, got=repr(got), truth=truth)
                    for pos in range(len(ids)):
                        rets.append((pos + 1, [(reader, objs[pos]) for reader, objs, _, _ in res if objs[pos] is not None]))
                        rets[:] = rets[-self.max_rets:]
                elif act in ("mut_top", "mut_nested"):
                    i, held = rets[args[0] - 1]
                    done = [(tab.mut_top if act == "mut_top" else tab.mut_nested)(row, origin) for origin, row in held]
                    if not any(done):
                        ctx.count("caller_mutation_impossible")
            except Exception as e:
                bad("raise:%s_%s:%s" % (act, tab.name, type(e).__name__), "%s raised %r after %s" % (act, e, hist[:n]), step=n, err=repr(e))
                return nreads
        if observe_all and path:
            last = path[-1]
            await env.commit()
            for i, cid in enumerate(ids, 1):
                raw, got = await self._read(cid)
                truth = tab.truth(env, cid)
                nreads += 1
                sig = classify(tab, got, truth, last_write.get(i))
                pred = last["reads"][tab.kind][i - 1]
                if sig and tab.predict and tab.abstract(got) == pred:
                    ctx.count("asis_model_predicts_wrong_read_code_follows")
                if sig:
                    bad(sig, "after %s: %s(%s) returned %r, a fresh connection reads %r" % (hist, tab.getter, i, got, truth),
                        step=len(path), got=repr(got), truth=truth,
                        predicted_by_model=(tab.abstract(got) == pred) if tab.predict else None)
                elif tab.predict and tab.abstract(got) != pred:
                    ctx.count("asis_model_predicts_wrong_read_code_reads_right")
            try:
                for label, got, truth in await tab.secondary(env, ids):
                    nreads += 1
                    sig = classify_bulk(tab, label, got, truth)
                    if sig:
                        bad(sig, "after %s: %s returned %r, a fresh connection reads %r" % (hist, label, got, truth),
                            got=repr(got), truth=truth)
            except Exception as e:
                bad("raise:secondary_%s:%s" % (tab.name, type(e).__name__), "secondary getters raised %r after %s" % (e, hist), err=repr(e))
        return nreads


def history_of(path):
    return [[t["act"]] + list(t["args"][1:] if t["act"] in ("add", "update", "get", "getall") else t["args"]) for t in path]


def _obs(tr):
    o = tr.get("obs") or {}
    return {"top": o.get("top"), "nested": o.get("nested")}


def build_paths(transitions, without=()):
    """BFS tree over the emitted graph: for every transition the shortest history that ends with it.
    without: action names left out (tables that have no bulk reader use the graph without getall); transitions whose
    source state is then unreachable are dropped."""
    parent = {}
    root = None
    transitions = [t for t in transitions if t["act"] not in without]
    out_edges = {}
    for tr in transitions:
        tr["_f"], tr["_t"] = json.dumps(tr["from"]), json.dumps(tr["to"])
        if root is None:
            root = tr["_f"]          # TLC emits in breadth-first order: the first source is the initial state
        out_edges.setdefault(tr["_f"], []).append(tr)
    frontier, seen = [root], {root}
    while frontier:                  # breadth-first over the (possibly filtered) graph: shortest histories
        nxt = []
        for st in frontier:
            for tr in out_edges.get(st, ()):
                if tr["_t"] not in seen:
                    seen.add(tr["_t"])
                    parent[tr["_t"]] = tr
                    nxt.append(tr["_t"])
        frontier = nxt

    def path_to(state):
        out = []
        while state != root:
            tr = parent.get(state)
            if tr is None:
                return None
            out.append(tr)
            state = tr["_f"]
        out.reverse()
        return out
    cache = {}
    for tr in transitions:
        s = tr["_f"]
        if s not in cache:
            cache[s] = path_to(s)
        if cache[s] is not None:
            yield cache[s] + [tr]
