"""Binding of `PersistenceWF` (C08) to the real code: instantiate a workflow SHAPE with concrete values, save it, load it
through DefaultDatabaseLoadingContext (twice) and WorkflowBuilder (deep copy), compare structurally, scan identities.

Own comparator (nothing imported from tests.*): `snapshot(x)` turns an entity graph into plain nested data - type
names, every attribute found in __dict__/__slots__, recursion through steps/ports/tokens/combinators/processors/
commands/configs; back references to the workflow become markers; persistent ids and run-time state are left out.
"""
from __future__ import annotations

import collections
import enum
import math

# ------------------------------------------------------------------------------------------------
# fixed catalogue of scalar classes fed through every shape (DESIGN 5/C08 scope note)
# ------------------------------------------------------------------------------------------------
STRINGS = ["", "plain", "unicodé 漢字 \U0001f600", "esc \"q\" \\ \n\t\u0000 end", "$(inputs.x)", "a%41b"]
NUMBERS = [0, -1, 2 ** 53 + 1, -(2 ** 63), 0.0, -0.0, 1.5, 1e-300, 1e300]
CONTAINERS = [[], {}, [[]], {"": {}}, [{}, []], {"k": [None, True, False]}]


def json_values():
    """JSON-compatible values used as token values / configs (every scalar class appears)."""
    return [None, True, False] + STRINGS + NUMBERS + CONTAINERS + [
        {"s": STRINGS, "n": NUMBERS, "c": CONTAINERS},
        [STRINGS[2], {"deep": {"deeper": [NUMBERS[2], {"x": STRINGS[3]}]}}],
    ]


def config_value(i=0):
    return {"key": STRINGS[(2 + i) % len(STRINGS)], "nested": {"list": [NUMBERS[2], -0.0, STRINGS[3]], "empty": {}, "el": []},
            "n": NUMBERS[i % len(NUMBERS)]}


# ------------------------------------------------------------------------------------------------
# snapshot (structural comparison)
# ------------------------------------------------------------------------------------------------
SKIP_ATTRS = {"persistent_id", "_saving", "context", "queues", "_output_lock", "_output_data", "_log_level"}
RUNTIME_EMPTY = {"token_list", "_token_values", "size_map", "token_map", "termination_map", "iteration_termination_checklist",
                 "default_token", "_only_default"}


def _attrs(obj):
    names = []
    if hasattr(obj, "__dict__"):
        names += list(vars(obj))
    for klass in type(obj).__mro__:
        for s in getattr(klass, "__slots__", ()) or ():
            if s not in names and hasattr(obj, s):
                names.append(s)
    return sorted(n for n in names if n not in SKIP_ATTRS)


def _is_entity(x):
    return type(x).__module__.startswith("streamflow.")


def snapshot(x, _stack=None, keep_status=True):
    """Plain data describing x.  Floats keep their sign and exactness (repr); types are part of the data."""
    from streamflow.core.workflow import Workflow
    _stack = _stack or []
    if x is None or isinstance(x, (bool, str)):
        return x
    if isinstance(x, enum.Enum):
        return "<enum %s.%s>" % (type(x).__name__, x.name)
    if isinstance(x, int):
        return x
    if isinstance(x, float):
        return "<float %s>" % ("nan" if math.isnan(x) else repr(x))
    if isinstance(x, (list, tuple, collections.deque)):
        return ["<%s>" % type(x).__name__] + [snapshot(v, _stack) for v in x] if not isinstance(x, list) else [snapshot(v, _stack) for v in x]
    if isinstance(x, (set, frozenset)):
        return ["<set>"] + sorted((snapshot(v, _stack) for v in x), key=repr)
    if isinstance(x, dict):
        # a mapping: insertion order is not part of the structure (wiring dicts are rebuilt in database order)
        return {"<dict>": sorted(([snapshot(k, _stack), snapshot(v, _stack)] for k, v in x.items()), key=lambda kv: repr(kv[0]))}
    if type(x).__module__.startswith("rdflib"):
        try:
            return {"<graph>": sorted([str(a), str(b), str(c)] for a, b, c in x)}
        except Exception:
            return {"<graph>": repr(x)}
    if _is_entity(x):
        if any(x is y for y in _stack):
            return "<back-ref %s %s>" % (type(x).__name__, getattr(x, "name", ""))
        if isinstance(x, Workflow) and _stack:
            return "<workflow %s %s>" % (type(x).__name__, x.name)
        out = {"<type>": type(x).__module__ + "." + type(x).__name__}
        for a in _attrs(x):
            v = getattr(x, a)
            if a in RUNTIME_EMPTY:
                out[a] = "<empty>" if not v else snapshot(v, _stack + [x])
            else:
                out[a] = snapshot(v, _stack + [x])
        return out
    return "<%s %r>" % (type(x).__name__, x)


def diffs(a, b, path="", owner="?", out=None, cap=40):
    """All leaf differences between two snapshots: list of (owner class, attribute path below the owner, a, b)."""
    out = [] if out is None else out
    if len(out) >= cap:
        return out
    if type(a) is not type(b):
        out.append((owner, path, a, b))
        return out
    if isinstance(a, dict):
        if "<dict>" in a and "<dict>" in b:
            ka, kb = {repr(k): v for k, v in a["<dict>"]}, {repr(k): v for k, v in b["<dict>"]}
            for k in sorted(set(ka) | set(kb)):
                if k not in ka or k not in kb:
                    out.append((owner, path, "<key %s %s>" % (k, "present" if k in ka else "absent"), "<key %s %s>" % (k, "present" if k in kb else "absent")))
                else:
                    diffs(ka[k], kb[k], path, owner, out, cap)
            return out
        if "<type>" in a and "<type>" in b:
            if a["<type>"] != b["<type>"]:
                out.append((owner, path + ".<type>", a["<type>"], b["<type>"]))
                return out
            if a["<type>"].rsplit(".", 1)[1] in PERSISTABLE or owner == "?":
                owner, path = a["<type>"].rsplit(".", 1)[1], ""
        for k in sorted(set(a) | set(b)):
            if k not in a or k not in b:
                out.append((owner, path + "." + str(k), a.get(k, "<absent>"), b.get(k, "<absent>")))
            else:
                diffs(a[k], b[k], path + "." + str(k), owner, out, cap)
        return out
    if isinstance(a, list):
        if len(a) != len(b):
            out.append((owner, path, "<len %d>" % len(a), "<len %d>" % len(b)))
            return out
        for x, y in zip(a, b):
            diffs(x, y, path, owner, out, cap)
        return out
    if a != b:
        out.append((owner, path, a, b))
    return out


def diff(a, b):
    d = diffs(a, b, cap=1)
    return d[0] if d else None


PERSISTABLE = set()


def _init_persistable():
    """names of the classes that have a persistent id of their own (owners in signatures)"""
    import importlib
    import inspect
    from streamflow.core.persistence import PersistableEntity
    for m in ("streamflow.core.workflow", "streamflow.core.deployment", "streamflow.workflow.step", "streamflow.workflow.token",
              "streamflow.workflow.port", "streamflow.cwl.step", "streamflow.cwl.transformer", "streamflow.cwl.token",
              "streamflow.cwl.workflow"):
        for n, c in inspect.getmembers(importlib.import_module(m), inspect.isclass):
            if issubclass(c, PersistableEntity):
                PERSISTABLE.add(n)


def diff_attr(d):
    """(owner, '.a[].b[]', x, y) -> 'Owner.a.b'"""
    import re
    p = d[1].strip(".")
    p = re.sub(r"(\.combinators)+(?=\.)", "", p)
    p = re.sub(r"^(processor|output_processors)(\.processors?)+", r"\1", p)
    return "%s.%s" % (d[0], p) if p else d[0]


def value_class(x):
    if isinstance(x, str) and x.startswith("<float"):
        return "float"
    return type(x).__name__


def attr_of_path(path):
    """'.steps[0][1].combinator.items[2]' -> 'combinator.items' (indices dropped)"""
    import re
    p = re.sub(r"\[\d+\]", "", path)
    p = re.sub(r"^\.(steps|ports)", "", p).strip(".")
    return p or "<root>"


# ------------------------------------------------------------------------------------------------
# identity scan (separation)
# ------------------------------------------------------------------------------------------------
MUTABLE = (list, dict, set, collections.deque, bytearray)


def reachable_containers(root, label_root=""):
    """id -> (class-based path, object) for every mutable container reachable from root (entities are traversed,
    the context / database / run-time queues are not)."""
    from streamflow.core.context import StreamFlowContext
    seen_entities = set()
    out = {}

    def walk(x, owner, path, depth):
        if depth > 40 or x is None or isinstance(x, (str, bytes, int, float, bool, enum.Enum, type)):
            return
        if isinstance(x, StreamFlowContext) or type(x).__module__.startswith(("asyncio", "rdflib", "cachebox", "aiosqlite", "sqlite3", "threading")):
            return
        if isinstance(x, MUTABLE):
            if id(x) in out:
                return
            out[id(x)] = ("%s.%s" % (owner, path) if path else owner, x)
            if isinstance(x, dict):
                for k, v in x.items():
                    walk(v, owner, path + "{}", depth + 1)
            else:
                for v in x:
                    walk(v, owner, path + "[]", depth + 1)
            return
        if isinstance(x, tuple):
            for v in x:
                walk(v, owner, path + "()", depth + 1)
            return
        if _is_entity(x):
            if id(x) in seen_entities:
                return
            seen_entities.add(id(x))
            persistable = hasattr(x, "persistent_id")
            own, base = (type(x).__name__, "") if persistable or not owner else (owner, path)
            for a in _attrs(x) + [n for n in ("queues",) if hasattr(x, n)]:
                if a in ("workflow", "step") and not (a == "workflow" and not owner):
                    continue          # back references: the workflow is scanned from its own root
                walk(getattr(x, a), own, (base + "." + a).strip("."), depth + 1)

    walk(root, label_root, "", 0)
    return out


def shared_between(a, b):
    """paths of mutable containers reachable from both roots (already scanned maps id -> (path, obj))."""
    return sorted({a[i][0] for i in a if i in b and a[i][1] is b[i][1]})


def cache_containers(db):
    """mutable containers held by the row caches: id -> ('<cache>:<path>', obj)"""
    out = {}
    for name in ("deployment", "port", "step", "target", "filter", "token", "workflow"):
        cache = getattr(db, name + "_cache", None)
        if cache is None:
            continue
        for key, row in list(cache.items()):
            def walk(x, path, depth=0):
                if depth > 30:
                    return
                if isinstance(x, MUTABLE):
                    out.setdefault(id(x), ("get_%s:%s" % (name, path), x))
                    for k, v in (x.items() if isinstance(x, dict) else enumerate(x)):
                        walk(v, path + ("." + str(k) if isinstance(x, dict) and depth < 2 else "[]"), depth + 1)
            walk(row, "row")
    return out


def mutate_everything(root):
    """The caller's own modifications of a loaded object: every mutable container reachable from it gets a sentinel."""
    n = 0
    for path, c in list(reachable_containers(root).values()):
        try:
            if isinstance(c, dict):
                c["__mutated__"] = "__mutated__"
            elif isinstance(c, list):
                c.append("__mutated__")
            elif isinstance(c, set):
                c.add("__mutated__")
            elif isinstance(c, collections.deque):
                c.append("__mutated__")
            n += 1
        except Exception:
            pass
    return n


# ------------------------------------------------------------------------------------------------
# instantiation of shapes
# ------------------------------------------------------------------------------------------------
CWL_VERSION = "v1.2"


class Builder:
    """Builds the real entities of one shape.  Names are deterministic; every constructor argument gets a value that
    differs from its default (so that a `_load` forgetting a parameter shows)."""

    def __init__(self, context, serial):
        self.context = context
        self.n = 0
        self.serial = serial
        self.wf = None
        self.tokens = []          # (token, port) to be saved after the workflow

    def name(self, prefix):
        self.n += 1
        return "%s_%d_%d" % (prefix, self.serial, self.n)

    # ---- pieces ------------------------------------------------------------------------------
    def workflow(self, kind):
        from streamflow.core.workflow import Workflow
        from streamflow.cwl.workflow import CWLWorkflow
        if kind == "CWLWorkflow":
            from rdflib import Graph, Literal, URIRef
            g = Graph()
            g.add((URIRef("http://example.org/b"), URIRef("http://example.org/t"), Literal(STRINGS[2])))
            self.wf = CWLWorkflow(context=self.context, name=self.name("wf"), config=config_value(), cwl_version=CWL_VERSION, format_graph=g)
        else:
            self.wf = Workflow(context=self.context, name=self.name("wf"), config=config_value(1))
        return self.wf

    def port(self, cls=None):
        from streamflow.core.workflow import Port
        return self.wf.create_port(cls=cls or Port, name=self.name("port"))

    def deployment(self, remote=False, wraps=False):
        from streamflow.core.config import Config
        from streamflow.core.deployment import DeploymentConfig, WrapsConfig
        if not remote:
            return DeploymentConfig(name=self.name("local"), type="local", config={}, external=True, lazy=False)
        return DeploymentConfig(name=self.name("dep"), type="ssh", config=config_value(2), external=True, lazy=False,
                                scheduling_policy=Config(name="pol", type="data_locality", config={"key": [2, {"x": STRINGS[2]}]}),
                                workdir="/tmp/" + STRINGS[1],
                                wraps=WrapsConfig(deployment="outer", service="svc") if wraps else None)

    def target(self, kind="local"):
        from streamflow.core.deployment import LocalTarget, Target
        if kind == "local":
            return LocalTarget(workdir="/home/" + self.name("w"))
        return Target(deployment=self.deployment(remote=True, wraps=(kind == "wrapped")), locations=2, service="svc", workdir="/remote/" + self.name("w"))

    def filter(self, empty=False):
        from streamflow.core.deployment import FilterConfig
        return FilterConfig(name=self.name("filter"), type="shuffle", config={} if empty else config_value(3))

    def combinator(self, kind, inner=0, depth=0):
        from streamflow.cwl.combinator import ListMergeCombinator
        from streamflow.workflow.combinator import (CartesianProductCombinator, DotProductCombinator, LoopCombinator,
                                                    LoopTerminationCombinator)
        nm = self.name("comb")
        if kind == "Cartesian":
            c = CartesianProductCombinator(name=nm, workflow=self.wf, depth=2)
        elif kind == "Dot":
            c = DotProductCombinator(name=nm, workflow=self.wf)
        elif kind == "Loop":
            c = LoopCombinator(name=nm, workflow=self.wf)
        elif kind == "LoopTermination":
            c = LoopTerminationCombinator(name=nm, workflow=self.wf)
            c.add_output_item("out_a")
            c.add_output_item(STRINGS[2])
        elif kind == "ListMerge":
            c = ListMergeCombinator(name=nm, workflow=self.wf, input_names=["in_a", STRINGS[2]], output_name="merged", flatten=True)
        else:
            raise ValueError(kind)
        c.add_item("item_" + STRINGS[2])
        if inner >= 1 and depth < 2:
            c.add_combinator(self.combinator("Dot", inner - 1, depth + 1), {"p1", "p2"})
        if inner >= 2 and depth < 2:
            c.add_combinator(self.combinator("Cartesian", 0, depth + 1), {"p3"})
        return c

    def secondary_files(self):
        from streamflow.cwl.utils import SecondaryFile
        return [SecondaryFile(pattern=".bai", required="$(1 == 1)"), SecondaryFile(pattern="^.idx", required=True)]

    def token_processor(self, kind, depth=0):
        from streamflow.core.processor import MapTokenProcessor, NullTokenProcessor, ObjectTokenProcessor, UnionTokenProcessor
        from streamflow.cwl.processor import CWLTokenProcessor
        from streamflow.cwl.utils import LoadListing
        nm = self.name("tp")
        if kind == "cwl":
            return CWLTokenProcessor(name=nm, workflow=self.wf, token_type=["enum", "null"], enum_symbols=["a", STRINGS[2]],
                                     expression_lib=["function f(){}", STRINGS[3]], file_format="fmt", full_js=True, load_contents=True,
                                     load_listing=LoadListing.deep_listing, only_propagate_secondary_files=False,
                                     secondary_files=self.secondary_files(), streamable=True)
        if kind == "null":
            return NullTokenProcessor(name=nm, workflow=self.wf)
        if kind == "map":
            return MapTokenProcessor(name=nm, workflow=self.wf, processor=self.token_processor("cwl", depth + 1))
        if kind == "object":
            return ObjectTokenProcessor(name=nm, workflow=self.wf, processors={"b": self.token_processor("cwl", depth + 1),
                                                                               "a": self.token_processor("null", depth + 1)})
        if kind == "union":
            return UnionTokenProcessor(name=nm, workflow=self.wf, processors=[self.token_processor("null", depth + 1),
                                                                              self.token_processor("cwl", depth + 1)])
        raise ValueError(kind)

    def output_processor(self, kind, depth=0):
        from streamflow.core.processor import (MapCommandOutputProcessor, ObjectCommandOutputProcessor, PopCommandOutputProcessor,
                                               UnionCommandOutputProcessor)
        from streamflow.cwl.processor import (CWLCommandOutputProcessor, CWLExpressionToolOutputProcessor,
                                              CWLObjectCommandOutputProcessor)
        from streamflow.cwl.utils import LoadListing
        from streamflow.workflow.step import DefaultCommandOutputProcessor
        nm = self.name("op")
        if kind == "default":
            return DefaultCommandOutputProcessor(name=nm, workflow=self.wf, target=self.target("local"))
        if kind == "cwl":
            return CWLCommandOutputProcessor(name=nm, workflow=self.wf, target=self.target("local"), token_type=["string", "File"],
                                             enum_symbols=["e1"], expression_lib=["lib1", STRINGS[3]], file_format="ff", full_js=True,
                                             glob="*.png", load_contents=True, load_listing=LoadListing.shallow_listing, optional=True,
                                             output_eval="$(self[0])", secondary_files=self.secondary_files(), single=True, streamable=True)
        if kind == "cwlexpr":
            return CWLExpressionToolOutputProcessor(name=nm, workflow=self.wf, target=self.target("remote"), token_type=["string"],
                                                    enum_symbols=["x"], file_format="ff", optional=True, streamable=True)
        if kind == "cwlobject":
            return CWLObjectCommandOutputProcessor(name=nm, workflow=self.wf, processors={"z": self.output_processor("cwl", depth + 1),
                                                                                          "a": self.output_processor("default", depth + 1)},
                                                   expression_lib=["a", "b"], full_js=True, output_eval="$(1)", target=self.target("local"), single=True)
        if kind == "object":
            return ObjectCommandOutputProcessor(name=nm, workflow=self.wf, processors={"z": self.output_processor("default", depth + 1),
                                                                                       "a": self.output_processor("default", depth + 1)},
                                                target=self.target("local"))
        if kind == "map":
            return MapCommandOutputProcessor(name=nm, workflow=self.wf, processor=self.output_processor("default", depth + 1), target=self.target("local"))
        if kind == "union":
            inner = self.output_processor("default", depth + 1)
            return UnionCommandOutputProcessor(name=nm, workflow=self.wf,
                                               processors=[PopCommandOutputProcessor(name=self.name("pop"), workflow=self.wf, processor=inner,
                                                                                     target=self.target("local")), inner],
                                               target=self.target("local"))
        raise ValueError(kind)

    def command_token_processor(self, kind, depth=0):
        from streamflow.cwl.command import (CWLCommandTokenProcessor, CWLForwardCommandTokenProcessor, CWLMapCommandTokenProcessor,
                                            CWLObjectCommandTokenProcessor)
        from streamflow.workflow.command import UnionCommandTokenProcessor
        nm = self.name("ctp")
        if kind == "cwl":
            return CWLCommandTokenProcessor(name=nm, expression=STRINGS[4], processor=CWLCommandTokenProcessor("in1", "in2") if depth == 0 else None,
                                            token_type="string", is_shell_command=True, item_separator="&", position=2, prefix="--p",
                                            separate=False, shell_quote=False)
        if kind == "forward":
            return CWLForwardCommandTokenProcessor(name=nm, token_type="File")
        if kind == "map":
            return CWLMapCommandTokenProcessor(name=nm, processor=self.command_token_processor("cwl", depth + 1))
        if kind == "object":
            return CWLObjectCommandTokenProcessor(name=nm, processors={"b": self.command_token_processor("cwl", depth + 1),
                                                                       "a": self.command_token_processor("forward", depth + 1)})
        if kind == "union":
            return UnionCommandTokenProcessor(name=nm, processors=[self.command_token_processor("cwl", depth + 1),
                                                                   self.command_token_processor("forward", depth + 1)])
        raise ValueError(kind)

    def command(self, kind, step):
        from streamflow.cwl.command import CWLCommand, CWLExpressionCommand
        if kind == "none":
            return None
        if kind == "cwlexpr":
            return CWLExpressionCommand(step=step, expression="$(inputs.a)", absolute_initial_workdir_allowed=True, expression_lib=["a", STRINGS[3]],
                                        full_js=True, initial_work_dir=["/tmp/wd", {"entry": "x", "entryname": STRINGS[2]}], inplace_update=True,
                                        time_limit="$(1+1)")
        ctp = kind.split(":")[1] if ":" in kind else None
        return CWLCommand(step=step, processors=[self.command_token_processor(ctp)] if ctp else [], absolute_initial_workdir_allowed=True,
                          base_command=["cmd", STRINGS[2]], environment={"A": "$(inputs.a)", STRINGS[2]: STRINGS[3]}, expression_lib=["L"],
                          failure_codes=[2, 3], full_js=True, initial_work_dir="/home", inplace_update=True, is_shell_command=True,
                          success_codes=[0, 1], step_stderr="err", step_stdin="in", step_stdout="out", time_limit=1000)

    def hardware(self):
        from streamflow.cwl.hardware import CWLHardwareRequirement
        return CWLHardwareRequirement(cwl_version=CWL_VERSION, cores=1.5, memory="$(inputs.m * 2)", tmpdir=1024, outdir=4096.5, full_js=True,
                                      expression_lib=["function f(m) {return m}"])

    # ---- steps ----------------------------------------------------------------------------------
    def step(self, spec, in_port, out_port):
        """spec: {"kind": ..., options}.  Wires the generic data ports `in_port` -> step -> `out_port` when the class allows it."""
        from streamflow.cwl import step as cstep
        from streamflow.cwl import transformer as ctr
        from streamflow.workflow import step as wstep
        from streamflow.workflow.port import ConnectorPort, JobPort
        wf, k, cwl = self.wf, spec["kind"], type(self.wf).__name__ == "CWLWorkflow"
        nm = "/" + self.name(k.lower())
        s = None
        data_in = data_out = True
        if k == "Combinator":
            cls = wstep.LoopCombinatorStep if spec.get("comb") == "Loop" else wstep.CombinatorStep
            s = wf.create_step(cls=cls, name=nm + "-combinator", combinator=self.combinator(spec.get("comb", "Dot"), spec.get("inner", 0)))
        elif k == "Deploy":
            s = wf.create_step(cls=wstep.DeployStep, name=nm + "/__deploy__", deployment_config=self.deployment(remote=True, wraps=spec.get("wraps", False)),
                               connector_port=self.port(ConnectorPort))
            data_in = data_out = False
        elif k == "Schedule":
            from streamflow.core.config import BindingConfig
            tg = spec.get("targets", "local")
            targets = [self.target(t) for t in ({"local": ["local"], "remote": ["remote", "local"], "wrapped": ["wrapped"]}[tg] if isinstance(tg, str) else tg)]
            bc = BindingConfig(targets=targets, filters=[self.filter(empty=(i % 2 == 1)) for i in range(spec.get("filters", 0))])
            cls = cstep.CWLScheduleStep if cwl else wstep.ScheduleStep
            s = wf.create_step(cls=cls, name=nm + "/__schedule__", binding_config=bc,
                               connector_ports={t.deployment.name: self.port(ConnectorPort) for t in targets}, job_port=self.port(JobPort),
                               job_prefix="prefix_" + STRINGS[2], hardware_requirement=self.hardware() if spec.get("hw") else None,
                               input_directory="/in", output_directory="/out", tmp_directory="/tmpd")
            data_in = data_out = False
        elif k == "Execute":
            if cwl:
                s = wf.create_step(cls=cstep.CWLExecuteStep, name=nm, job_port=self.port(JobPort), recoverable="$(inputs.r)",
                                   expression_lib=["a", STRINGS[3]], full_js=True)
            else:
                s = wf.create_step(cls=wstep.ExecuteStep, name=nm, job_port=self.port(JobPort))
            s.command = self.command(spec.get("command", "none"), s)
            op = spec.get("outproc", "none")
            if in_port is not None:
                s.add_input_port("in", in_port)
            if out_port is not None:
                s.add_output_port("out", out_port, self.output_processor(op) if op != "none" else None)
            s.output_connectors = {"out": "conn_" + STRINGS[1]}
            return s
        elif k == "Gather":
            s = wf.create_step(cls=wstep.GatherStep, name=nm + "-gather", size_port=self.port(), depth=2)
        elif k == "Scatter":
            s = wf.create_step(cls=wstep.ScatterStep, name=nm + "-scatter", size_port=self.port())
        elif k == "Transfer":
            s = wf.create_step(cls=cstep.CWLTransferStep, name=nm + "/__transfer__", job_port=self.port(JobPort), prefix_path=False, writable=True)
        elif k == "InputInjector":
            s = wf.create_step(cls=cstep.CWLInputInjectorStep, name=nm + "-injector", job_port=self.port(JobPort))
        elif k == "Conditional":
            v = spec.get("variant", "when")
            if v == "empty_scatter":
                s = wf.create_step(cls=cstep.CWLEmptyScatterConditionalStep, name=nm + "-empty-scatter", scatter_method="nested_crossproduct")
            else:
                cls = cstep.CWLLoopConditionalStep if v == "loop" else cstep.CWLConditionalStep
                s = wf.create_step(cls=cls, name=nm + "-when", expression="$(inputs.x > 1)", expression_lib=["lib", STRINGS[3]], full_js=True)
                s.add_skip_port("skip_a", self.port())
        elif k == "LoopOutput":
            cls = cstep.CWLLoopOutputAllStep if spec.get("variant") == "all" else cstep.CWLLoopOutputLastStep
            s = wf.create_step(cls=cls, name=nm + "-loop-output")
        elif k == "Transformer":
            t = spec.get("t", "Forward")
            simple = {"Forward": ctr.ForwardTransformer, "AllNonNull": ctr.AllNonNullTransformer, "FirstNonNull": ctr.FirstNonNullTransformer,
                      "OnlyNonNull": ctr.OnlyNonNullTransformer, "ListToElement": ctr.ListToElementTransformer,
                      "CartesianProductSize": ctr.CartesianProductSizeTransformer, "DotProductSize": ctr.DotProductSizeTransformer}
            if t in simple:
                s = wf.create_step(cls=simple[t], name=nm + "-transformer")
            elif t == "Clone":
                s = wf.create_step(cls=ctr.CloneTransformer, name=nm + "-clone", replicas_port=self.port())
            elif t == "Default":
                s = wf.create_step(cls=ctr.DefaultTransformer, name=nm + "-default", default_port=self.port())
            elif t == "DefaultRetag":
                s = wf.create_step(cls=ctr.DefaultRetagTransformer, name=nm + "-default-retag", default_port=self.port(), primary_port="prime")
            elif t == "CWLToken":
                s = wf.create_step(cls=ctr.CWLTokenTransformer, name=nm + "-token", port_name="in", processor=self.token_processor(spec.get("proc", "cwl")))
            elif t == "ValueFrom":
                s = wf.create_step(cls=ctr.ValueFromTransformer, name=nm + "-value-from", port_name="in", processor=self.token_processor(spec.get("proc", "cwl")),
                                   value_from="$(self + 1)", expression_lib=["lib", STRINGS[3]], full_js=True)
            elif t == "LoopValueFrom":
                s = wf.create_step(cls=ctr.LoopValueFromTransformer, name=nm + "-loop-value-from", port_name="in", processor=self.token_processor(spec.get("proc", "cwl")),
                                   value_from="$(self + 1)", expression_lib=["lib", STRINGS[3]], full_js=True)
                s.add_loop_input_port("lin", self.port())
                s.add_loop_source_port("lsrc", self.port())
            else:
                raise ValueError(t)
        else:
            raise ValueError(k)
        if data_in and in_port is not None:
            s.add_input_port("in", in_port)
        if data_out and out_port is not None:
            s.add_output_port("out", out_port)
        return s

    # ---- tokens ---------------------------------------------------------------------------------
    def token(self, kind, i=0, depth=0):
        from streamflow.core.workflow import Job, Status, Token
        from streamflow.cwl.token import CWLFileToken
        from streamflow.workflow.token import IterationTerminationToken, JobToken, ListToken, ObjectToken, TerminationToken
        vals = json_values()
        scal = [v for v in vals if not isinstance(v, (list, dict))]
        tag = "0.%d.%d" % (i, depth)
        if kind == "Token":          # a plain token whose value is a container holding the whole catalogue of scalars
            return Token(value={"all": vals, "i": i} if i % 2 == 0 else [vals, i], tag=tag, recoverable=bool((i + depth) % 2 == 0))
        if kind == "ScalarToken":
            return Token(value=scal[(i * 5 + depth) % len(scal)], tag=tag, recoverable=bool((i + depth) % 2))
        if kind == "File":
            return CWLFileToken(value={"class": "File", "basename": STRINGS[2], "path": "/x/" + STRINGS[2], "size": NUMBERS[2],
                                       "secondaryFiles": [{"class": "File", "path": "/x/y"}], "contents": STRINGS[3]}, tag=tag, recoverable=True)
        if kind == "List":
            return ListToken(value=[self.token("Token", i + 1, depth + 1), self.token("File", i + 2, depth + 1),
                                    self.token("ScalarToken", i + 3, depth + 1)], tag=tag)
        if kind == "EmptyList":
            return ListToken(value=[], tag=tag)
        if kind == "Object":
            return ObjectToken(value={"b": self.token("ScalarToken", i + 4, depth + 1), STRINGS[2]: self.token("ScalarToken", i + 5, depth + 1),
                                      "": self.token("EmptyList", i + 6, depth + 1)}, tag=tag)
        if kind == "Job":
            return JobToken(value=Job(name="/job/" + self.name("j"), workflow_id=7, inputs={"x": self.token("ScalarToken", i + 6, depth + 1),
                                                                                              "l": self.token("EmptyList", i + 7, depth + 1)},
                                      input_directory="/in/" + STRINGS[2], output_directory="/out", tmp_directory="/tmpd"), tag=tag, recoverable=bool(i % 2))
        if kind == "Termination":
            return TerminationToken(value=Status.FAILED)
        if kind == "IterationTermination":
            return IterationTerminationToken(tag=tag)
        raise ValueError(kind)

    # ---- whole shape ----------------------------------------------------------------------------
    def build(self, shape):
        wf = self.workflow(shape.get("wf", "Workflow"))
        specs = shape.get("steps", [])
        wiring = shape.get("wiring", "chain")
        p_in = self.port()
        wf.input_ports["in_" + STRINGS[1]] = p_in.name        # as the CWL translator does for every workflow input
        prev_out = None
        for idx, spec in enumerate(specs):
            inp = p_in if idx == 0 else (prev_out if wiring == "chain" and prev_out is not None else self.port())
            out = self.port()
            s = self.step(spec, inp, out)
            prev_out = out if out.name in s.output_ports.values() else None
        if prev_out is not None:
            wf.output_ports["result"] = prev_out.name
        for i, tk in enumerate(sorted(shape.get("tokens", []))):
            self.tokens.append((self.token(tk, i), p_in))
        return wf


# ------------------------------------------------------------------------------------------------
# normalised attribute paths (what the model calls a FIELD)
# ------------------------------------------------------------------------------------------------
def norm_path(path):
    """'CWLExecuteStep.output_processors{}.processors{}.token_type' -> ('CWLExecuteStep', 'output_processors.token_type')
    recursion through nested combinators / processors and the depth inside a container are dropped."""
    import re
    owner, _, rest = path.partition(".")
    rest = re.sub(r"(\{\}|\[\]|\(\))", "", rest)
    rest = re.sub(r"(\.combinators)+(?=\.)", "", rest)                       # nested combinators
    rest = re.sub(r"^(processor|output_processors)(\.processors?)+", r"\1", rest)   # nested processors
    rest = re.sub(r"^(command\.processors)(\.processors?)+", r"\1", rest)
    return owner, rest


def field_name(path):
    owner, rest = norm_path(path)
    if owner in ("DeploymentConfig", "FilterConfig", "Target", "LocalTarget") or owner.endswith("Token"):
        return owner + "." + rest
    return rest
