"""Generated dataflow workflows: one description builds BOTH the TLA+ instance (MC_/Trace_ constants)
and the real StreamFlow workflow (engine-level steps, real ports, SQLite, StreamFlowExecutor).

Description (JSON-able dict):
  {"steps": [{"name": "s1", "kind": "fwd|scatter|gather|exec|cond|dot|cart", "ins": [ports], "outs": [ports]}, ...],
   "inputs": {"port": [token, ...]},          token = {"tag": [0], "val": 3 | [1,2,3]}
   "outputs": ["port", ...],                  workflow output ports
   "fail": [["step", [tag]], ...]}            jobs (exec steps) that fail
Value semantics shared with Dataflow.tla:
  Val(v) = v for an integer, sum of the elements for a list
  fwd   : out = 1 + sum of Val(inputs)         (Transformer; one round = one token per input port)
  exec  : out = 2 * sum of Val(inputs)         (DeployStep + ScheduleStep + ExecuteStep, in-process command)
  cond  : forwards its inputs when sum of Val(inputs) is even, drops them otherwise (ConditionalStep)
  scatter/gather : as the engine defines them (gather depth 1; outs of scatter = [elements, size])
  dot / cart : CombinatorStep with DotProductCombinator / CartesianProductCombinator (outs parallel to ins)
"""
from __future__ import annotations

import asyncio
import contextvars
import os
import posixpath
import sqlite3
import tempfile

CUR_STEP = contextvars.ContextVar("vh_cur_step", default=None)
REMOTE_ROOTS = {}     # location name -> real root directory of the shell-based remote locations of the current run


def val(v):
    return sum(val(x) for x in v) if isinstance(v, list) else v


def elem(v):
    """A list element in the specification's tagged form."""
    return {"k": "lst", "val": [elem(x) for x in v]} if isinstance(v, list) else {"k": "tok", "val": v}


def topval(v):
    """The `val` field of a token: an integer, or a sequence of elements."""
    return [elem(x) for x in v] if isinstance(v, list) else v


def tagstr(t):
    return ".".join(str(c) for c in t)


def tagseq(s):
    return [int(c) for c in s.split(".")]


# ------------------------------------------------------------------------------------------------
# real classes (created lazily so that importing this module does not import streamflow)
# ------------------------------------------------------------------------------------------------
_CLS = {}


def classes():
    if _CLS:
        return _CLS
    from streamflow.core.utils import get_tag
    from streamflow.core.workflow import Command, CommandOutput, Status, Token
    from streamflow.workflow.step import ConditionalStep, Transformer
    from streamflow.workflow.token import ListToken

    def tokval(t):
        if isinstance(t, ListToken):
            return [tokval(x) for x in t.value]
        return t.value

    class HFwd(Transformer):
        async def transform(self, inputs):
            total = 1 + sum(val(tokval(t)) for t in inputs.values())
            return {next(iter(self.output_ports)): Token(value=total, tag=get_tag(inputs.values()))}

    class HMul(Transformer):
        async def transform(self, inputs):
            pr = 1
            for t in inputs.values():
                pr *= val(tokval(t))
            return {next(iter(self.output_ports)): Token(value=pr, tag=get_tag(inputs.values()))}

    class HCond(ConditionalStep):
        async def _eval(self, inputs):
            return sum(val(tokval(t)) for t in inputs.values()) % 2 == 0

        async def _on_true(self, inputs):
            from streamflow.core.utils import get_entity_ids
            for (name, tok), out in zip(inputs.items(), self.output_ports.keys()):
                port = self.get_output_port(out)
                port.put(await self._persist_token(token=tok.update(tok.value), port=port,
                                                   input_token_ids=get_entity_ids(inputs.values())))

        async def _on_false(self, inputs):
            return

    class HCommand(Command):
        """In-process job command: 2 * sum(Val(inputs)); fails when (step, tag) is in the plan.
        `gate` (optional) is awaited before completing: drivers park completions there."""
        fail = set()
        gate = None
        log = None
        delay = None

        async def execute(self, job):
            tag = posixpath.basename(job.name)
            key = (self.step.name, tag)
            if HCommand.log is not None:
                HCommand.log.append({"ev": "jobstart", "step": self.step.name, "tag": tagseq(tag)})
            if HCommand.gate is not None:
                await HCommand.gate(key)
            else:
                if HCommand.delay:
                    # jobs take a (seeded) real amount of time, so that jobs of one step really overlap and finish
                    # out of order (scheduling a job costs several database round trips)
                    await asyncio.sleep(HCommand.delay())
                else:
                    await asyncio.sleep(0)
            if key in HCommand.fail:
                out = CommandOutput("injected failure", Status.FAILED)
            else:
                out = CommandOutput(2 * sum(val(tokval(t)) for t in job.inputs.values()), Status.COMPLETED)
            if HCommand.log is not None:
                HCommand.log.append({"ev": "jobend", "step": self.step.name, "tag": tagseq(tag),
                                     "ok": out.status == Status.COMPLETED})
            return out

    _CLS.update(HFwd=HFwd, HMul=HMul, HCond=HCond, HCommand=HCommand, tokval=tokval)
    return _CLS


def make_token(t):
    from streamflow.core.workflow import Token
    from streamflow.workflow.token import ListToken
    def mk(v, tag):
        if isinstance(v, list):
            return ListToken([mk(x, tag) for x in v], tag=tag)
        return Token(v, tag=tag)
    return mk(t["val"], tagstr(t["tag"]))


async def build_real(ctx, desc, workdir):
    """Build the real workflow for `desc`.  Returns (workflow, {portname: Port}, {stepname: [real step names]})."""
    from streamflow.core.config import BindingConfig
    from streamflow.core.deployment import DeploymentConfig, Target
    from streamflow.core.workflow import Workflow
    from streamflow.workflow.combinator import CartesianProductCombinator, DotProductCombinator
    from streamflow.workflow.port import ConnectorPort, JobPort
    from streamflow.workflow.step import (CombinatorStep, DeployStep, ExecuteStep, GatherStep, ScatterStep,
                                          ScheduleStep)
    C = classes()
    wf = Workflow(context=ctx, config={}, name=desc.get("name", "w"))
    P = {}

    def port(name):
        if name not in P:
            P[name] = wf.create_port(name=name)
        return P[name]

    realnames = {}
    deploy = None
    dconf = None
    EXTRA_DEPLOY = {}
    for s in desc["steps"]:
        k, name = s["kind"], "/" + s["name"]
        if k in ("fwd", "mul"):
            st = wf.create_step(cls=C["HFwd" if k == "fwd" else "HMul"], name=name)
            for p in s["ins"]:
                st.add_input_port(p, port(p))
            st.add_output_port(s["outs"][0], port(s["outs"][0]))
            realnames[s["name"]] = [name]
        elif k == "cond":
            st = wf.create_step(cls=C["HCond"], name=name)
            for p in s["ins"]:
                st.add_input_port(p, port(p))
            for p in s["outs"]:
                st.add_output_port(p, port(p))
            realnames[s["name"]] = [name]
        elif k == "scatter":
            st = wf.create_step(cls=ScatterStep, name=name, size_port=port(s["outs"][1]))
            st.add_input_port(s["ins"][0], port(s["ins"][0]))
            st.add_output_port(s["outs"][0], port(s["outs"][0]))
            realnames[s["name"]] = [name]
        elif k == "gather":
            st = wf.create_step(cls=GatherStep, name=name, size_port=port(s["ins"][1]), depth=s.get("depth", 1))
            st.add_input_port(s["ins"][0], port(s["ins"][0]))
            st.add_output_port(s["outs"][0], port(s["outs"][0]))
            realnames[s["name"]] = [name]
        elif k in ("dot", "cart"):
            comb = (DotProductCombinator if k == "dot" else CartesianProductCombinator)(name=name + "-comb", workflow=wf)
            for p in s["ins"]:
                comb.add_item(p)
            st = wf.create_step(cls=CombinatorStep, name=name, combinator=comb)
            for pi, po in zip(s["ins"], s["outs"]):
                st.add_input_port(pi, port(pi))
                st.add_output_port(pi, port(po))
            realnames[s["name"]] = [name]
        elif k == "exec":
            if deploy is None and desc.get("remote"):
                # a multi-location shell-based remote deployment (chroot'ed roots, see fs_remote.py); jobs take
                # `per_job` locations each
                from vh.sut import fs_remote
                fs_remote._register()
                tb = fs_remote.Toolbox(os.path.join(os.path.dirname(workdir), "roots"))
                roots = {n: tb.new_root("R_%s" % n) for n in desc["remote"]["locs"]}
                REMOTE_ROOTS.clear()
                REMOTE_ROOTS.update(roots)
                dconf = DeploymentConfig(name="R", type=fs_remote.TYPE, config={"roots": roots, "transferBufferSize": 2 ** 16, "guard": True},
                                         external=False, lazy=False, workdir="/tmp")
                cport = wf.create_port(cls=ConnectorPort, name="__conn__")
                P["__conn__"] = cport
                deploy = wf.create_step(cls=DeployStep, name="/__deploy__/__LOCAL__", deployment_config=dconf,
                                        connector_port=cport)
            if deploy is None:
                dconf = DeploymentConfig(name="__LOCAL__", type="local", config={}, external=True, lazy=False,
                                         workdir=workdir)
                cport = wf.create_port(cls=ConnectorPort, name="__conn__")
                P["__conn__"] = cport
                deploy = wf.create_step(cls=DeployStep, name="/__deploy__/__LOCAL__", deployment_config=dconf,
                                        connector_port=cport)
            extra = {}      # further targets of the binding (desc["targets"] = k): local deployments L2..Lk, one DeployStep each
            if not desc.get("remote"):
                for i in range(2, int(desc.get("targets", 1)) + 1):
                    if "__conn%d__" % i not in P:
                        dc = DeploymentConfig(name="L%d" % i, type="local", config={}, external=True, lazy=False, workdir=workdir)
                        P["__conn%d__" % i] = wf.create_port(cls=ConnectorPort, name="__conn%d__" % i)
                        dstep = wf.create_step(cls=DeployStep, name="/__deploy__/L%d" % i, deployment_config=dc,
                                               connector_port=P["__conn%d__" % i])
                        realnames["dep%d" % i] = [dstep.name]
                        EXTRA_DEPLOY[i] = (dc, dstep)
                    extra[i] = EXTRA_DEPLOY[i]
            if desc.get("remote"):
                binding = BindingConfig(targets=[Target(deployment=dconf, locations=desc["remote"].get("per_job", 1), workdir="/tmp")])
            else:
                binding = BindingConfig(targets=[Target(deployment=dconf, workdir=workdir)]
                                        + [Target(deployment=dc, workdir=workdir) for dc, _ in extra.values()])
            jport = wf.create_port(cls=JobPort, name=s["name"] + ".job")
            P[s["name"] + ".job"] = jport
            sched = wf.create_step(cls=ScheduleStep, name=name + "/__schedule__", job_prefix=name,
                                   connector_ports=dict({dconf.name: deploy.get_output_port()},
                                                        **{dc.name: dstep.get_output_port() for dc, dstep in extra.values()}),
                                   binding_config=binding, job_port=jport,
                                   **({"output_directory": desc["remote"]["pin_output"]} if desc.get("remote", {}).get("pin_output") else
                                      ({"output_directory": os.path.join(os.path.dirname(workdir), "pinned-out")} if desc.get("pin_local") else {})))
            ex = wf.create_step(cls=ExecuteStep, name=name, job_port=jport)
            ex.command = C["HCommand"](ex)
            for p in s["ins"]:
                sched.add_input_port(p, port(p))
                ex.add_input_port(p, port(p))
            ex.add_output_port(s["outs"][0], port(s["outs"][0]))
            realnames[s["name"]] = [name, name + "/__schedule__"]
        else:
            raise ValueError(k)
    for p in desc["outputs"]:
        wf.output_ports[p] = port(p).name
    await wf.save(ctx.database)
    # inject inputs (persisted, as the engine's injectors do), then a termination token
    from streamflow.workflow.token import TerminationToken
    for pname, toks in desc["inputs"].items():
        prt = port(pname)
        if prt.persistent_id is None:
            await prt.save(ctx.database)
        for t in toks:
            tok = make_token(t)
            await tok.save(ctx.database, prt.persistent_id)
            prt.put(tok)
        prt.put(TerminationToken())
    return wf, P, realnames


# ------------------------------------------------------------------------------------------------
# recorder: run-time wrappers at linearization points (env-guarded, add-only, removable)
# ------------------------------------------------------------------------------------------------
class Recorder:
    """Records put / persist / terminate events with a sequence number.  `put` is logged inside
    Port.put (synchronous: the event is appended in the same atomic section as the state change)."""

    def __init__(self, portnames_of=None):
        self.ev = []
        self._undo = []
        self.pname = portnames_of or (lambda port: port.name)

    def install(self):
        if os.environ.get("STREAMFLOW_VERIF") != "1":
            raise RuntimeError("hooks are guarded by STREAMFLOW_VERIF=1")
        import streamflow.core.workflow as cw
        import streamflow.workflow.port as wp
        import streamflow.workflow.step as ws
        from streamflow.workflow.token import IterationTerminationToken, TerminationToken
        tokval = classes()["tokval"]
        rec = self

        def describe(token):
            if isinstance(token, TerminationToken):
                return {"k": "term", "st": token.value.name.lower()}
            if isinstance(token, IterationTerminationToken):
                return {"k": "iterm", "tag": tagseq(token.tag)}
            from streamflow.workflow.token import JobToken
            if isinstance(token, JobToken):
                return {"k": "job", "tag": tagseq(token.tag), "id": token.persistent_id,
                        "dirs": [token.value.input_directory, token.value.output_directory, token.value.tmp_directory],
                        "job": token.value.name}
            return {"k": "tok", "tag": tagseq(token.tag), "val": tokval(token), "id": token.persistent_id}

        def wrap_put(cls):
            orig = cls.__dict__.get("put")
            if orig is None:
                return

            def put(self, token):
                e = {"ev": "put", "port": rec.pname(self), "step": CUR_STEP.get()}
                e.update(describe(token))
                if e.get("k") == "job":
                    try:
                        c = self.workflow.context
                        locs = c.scheduler.get_locations(token.value.name)
                        e["locs"] = ["%s/%s" % (x.deployment, x.name) for x in locs]
                        e["exists"] = [os.path.isdir(d if x.local else REMOTE_ROOTS.get(x.name, "/nonexistent") + d) for x in locs for d in e["dirs"]]
                        e["registered"] = [bool(c.data_manager.get_data_locations(d, x.deployment, x.name)) for x in locs for d in e["dirs"]]
                    except Exception as ex:  # observation failure is reported by the driver
                        e["observe_error"] = repr(ex)
                rec.ev.append(e)
                return orig(self, token)
            put.__wrapped__ = orig
            cls.put = put
            rec._undo.append((cls, "put", orig))

        for cls in (cw.Port, wp.FilterTokenPort, wp.InterWorkflowPort):
            wrap_put(cls)

        orig_persist = ws.BaseStep._persist_token

        async def _persist_token(self, token, port, input_token_ids):
            r = await orig_persist(self, token, port, input_token_ids)
            e = {"ev": "persist", "step": self.name, "port": rec.pname(port), "id": r.persistent_id,
                 "inputs": sorted(i for i in input_token_ids if i is not None)}
            e.update({k: v for k, v in describe(r).items() if k in ("k", "tag", "val")})
            rec.ev.append(e)
            return r
        ws.BaseStep._persist_token = _persist_token
        self._undo.append((ws.BaseStep, "_persist_token", orig_persist))

        orig_term = ws.BaseStep.terminate

        async def terminate(self, status):
            already = self.terminated
            tok = CUR_STEP.set(self.name)
            try:
                r = await orig_term(self, status)
            finally:
                CUR_STEP.reset(tok)
            if not already:
                rec.ev.append({"ev": "terminate", "step": self.name, "st": status.name.lower()})
            return r
        ws.BaseStep.terminate = terminate
        self._undo.append((ws.BaseStep, "terminate", orig_term))
        return self

    def wrap_step_runs(self, wf):
        """Set the producer context variable around each step's run() (instance-level wrapper)."""
        for st in wf.steps.values():
            orig = st.run

            def mk(orig, name):
                async def run():
                    tok = CUR_STEP.set(name)
                    try:
                        return await orig()
                    finally:
                        CUR_STEP.reset(tok)
                return run
            st.run = mk(orig, st.name)

    def uninstall(self):
        for cls, name, orig in reversed(self._undo):
            setattr(cls, name, orig)
        self._undo = []


def read_provenance(dbfile):
    """Read the token and provenance tables through a second, plain sqlite3 connection."""
    con = sqlite3.connect(dbfile)
    try:
        toks = {r[0]: {"port": r[1], "tag": r[2]} for r in con.execute("select id, port, tag from token")}
        prov = sorted((r[0], r[1]) for r in con.execute("select dependee, depender from provenance"))
        ports = {r[0]: r[1] for r in con.execute("select id, name from port")}
    finally:
        con.close()
    return toks, prov, ports


async def run_once(desc, seed=None, K=3, timeout=60.0, gate=None, keep_db=False, slow_ports=(), settle_timeout=30.0, order=None):
    """Execute `desc` for real.  Returns dict(events, result|error, outputs, token_lists, steps, provenance...)."""
    import random

    from streamflow.core.workflow import Status
    from streamflow.workflow.executor import StreamFlowExecutor
    from vh.sut import context as vctx
    from vh import aio
    C = classes()
    tmp = tempfile.mkdtemp(prefix="vh_dflow_")
    dbfile = os.path.join(tmp, "db.sqlite")
    ctx = vctx.build(path=os.path.join(tmp, "streamflow.yml"), db=dbfile)
    rec = Recorder().install()
    C["HCommand"].fail = {("/" + s, tagstr(t)) for s, t in desc.get("fail", [])}
    C["HCommand"].gate = gate
    C["HCommand"].log = rec.ev
    jrng = __import__("random").Random("job%s" % seed)
    C["HCommand"].delay = (lambda: jrng.choice([0.0, 0.002, 0.01, 0.03, 0.06])) if seed is not None else None
    undo = []
    out = {"desc": desc}
    try:
        if seed is not None:
            rng = random.Random(seed)
            import streamflow.persistence.sqlite as sq
            for name in ("add_token", "add_provenance", "update_step", "add_execution", "update_execution"):
                f = getattr(sq.SqliteDatabase, name, None)
                if f is None:
                    continue

                def mk(f, name=name):
                    async def w(self, *a, **k):
                        r = await f(self, *a, **k)
                        for _ in range(rng.randint(0, K)):
                            await asyncio.sleep(0)
                        if name == "add_token" and slow_ids and k.get("port", a[3] if len(a) > 3 else None) in slow_ids:
                            await asyncio.sleep(0.3)      # a slow database completion for tokens of the `slow_ports`
                        return r
                    return w
                setattr(sq.SqliteDatabase, name, mk(f))
                undo.append((sq.SqliteDatabase, name, f))
        slow_ids = set()
        if "__deploy__" in slow_ports:
            # a deployment that takes a while (as real container/cluster deployments do)
            import streamflow.deployment.manager as dm
            orig_deploy = dm.DefaultDeploymentManager.deploy

            async def slow_deploy(self, deployment_config):
                await asyncio.sleep(0.5)
                return await orig_deploy(self, deployment_config)
            dm.DefaultDeploymentManager.deploy = slow_deploy
            undo.append((dm.DefaultDeploymentManager, "deploy", orig_deploy))
        driver_task = None
        if order is not None:
            # B-env: job completions are parked on gates and released one at a time following the priority list `order`
            # (a permutation of the job keys taken from the specification's behaviours): whenever the set of parked jobs
            # has been stable for a moment, the parked job with the highest priority completes.
            parked, released = {}, set()
            prio = {(("/" + s0), tagstr(t0)): i for i, (s0, t0) in enumerate(order)}

            async def gate_fn(key):
                ev = asyncio.Event()
                parked[key] = ev
                await ev.wait()

            async def driver():
                last = None
                while True:
                    await asyncio.sleep(0.01)
                    cur = sorted(k for k in parked if k not in released)
                    if cur and cur == last:
                        k = min(cur, key=lambda x: prio.get(x, 10 ** 9))
                        released.add(k)
                        rec.ev.append({"ev": "release", "step": k[0], "tag": tagseq(k[1])})
                        parked[k].set()
                        last = None
                    else:
                        last = cur
            C["HCommand"].gate = gate_fn
            driver_task = asyncio.create_task(driver(), name="vh-driver")
        wf, P, realnames = await build_real(ctx, desc, os.path.join(tmp, "work"))
        slow_ids.update(P[p].persistent_id for p in slow_ports if p in P)
        rec.wrap_step_runs(wf)
        ex = StreamFlowExecutor(wf)
        try:
            res = await asyncio.wait_for(ex.run(), aio.scaled(timeout))
            out["result"] = {k: v for k, v in res.items()}
            out["error"] = None
            rec.ev.append({"ev": "return"})
        except asyncio.TimeoutError:
            out["result"], out["error"] = None, "HANG"
        except asyncio.CancelledError:
            raise
        except Exception as e:
            out["result"], out["error"] = None, type(e).__name__
            rec.ev.append({"ev": "raise"})
        if driver_task is not None:
            # jobs still parked (e.g. cancelled siblings) are released so that nothing hangs on the harness
            await asyncio.sleep(0.05)
        # After run() returned or raised the steps that are still running must end by themselves (the model proves
        # EveryStepEnds): give them time, then anything still pending is a dangling task.
        me = asyncio.current_task()
        others = [t for t in asyncio.all_tasks() if t is not me and not t.done() and t.get_name() != "vh-driver"]
        if others:
            await asyncio.wait(others, timeout=aio.scaled(settle_timeout))
        for _ in range(5):
            await asyncio.sleep(0)
        if driver_task is not None:
            driver_task.cancel()
        out["pending_tasks"] = sorted(t.get_name() for t in asyncio.all_tasks() if t is not me and not t.done() and t.get_name() != "vh-driver")
        out["order"] = order
        tokval = C["tokval"]
        from streamflow.workflow.token import TerminationToken
        out["steps"] = {n: {"status": s.status.name.lower(), "terminated": s.terminated} for n, s in wf.steps.items()}
        out["token_lists"] = {
            n: [({"k": "term", "st": t.value.name.lower()} if isinstance(t, TerminationToken)
                 else {"k": "tok", "tag": tagseq(t.tag), "val": tokval(t) if not hasattr(t.value, "name") else "job"})
                for t in p.token_list] for n, p in P.items()}
        if int(desc.get("rounds", 1)) > 1 and out["error"] is None:
            # C15 (JobDirs!Lose): the directories the binding pins are lost on their locations and the data manager is
            # told so (invalidate_location, what FileToken.is_available does for a path that has gone); then the same
            # job steps are scheduled again in the same context (what a rollback or a second run does)
            import copy
            import shutil
            seen = {}
            for e in [x for x in rec.ev if x["ev"] == "put" and x.get("k") == "job"]:
                for dname in e["dirs"]:
                    seen.setdefault(dname, []).append(e["job"])
            shared = sorted(dn for dn, js in seen.items() if len(js) > 1)      # pinned = handed to several jobs
            done = set()
            for e in [x for x in rec.ev if x["ev"] == "put" and x.get("k") == "job"]:
                for loc in ctx.scheduler.get_locations(e["job"]):
                    for dname in shared:
                        if dname in e["dirs"] and (loc.deployment, loc.name, dname) not in done:
                            done.add((loc.deployment, loc.name, dname))
                            if loc.local:
                                shutil.rmtree(dname, ignore_errors=True)
                            ctx.data_manager.invalidate_location(loc, dname)
                            rec.ev.append({"ev": "lose", "loc": "%s/%s" % (loc.deployment, loc.name), "dir": dname})
            d2 = copy.deepcopy(desc)
            d2["name"] = desc.get("name", "w") + "-r2"
            ren = {s0["name"]: s0["name"] + "_r2" for s0 in d2["steps"] if s0["kind"] == "exec"}
            for s0 in d2["steps"]:
                s0["name"] = ren.get(s0["name"], s0["name"])
            wf2, P2, _ = await build_real(ctx, d2, os.path.join(tmp, "work"))
            rec.wrap_step_runs(wf2)
            try:
                await asyncio.wait_for(StreamFlowExecutor(wf2).run(), aio.scaled(timeout))
                rec.ev.append({"ev": "return2"})
            except asyncio.TimeoutError:
                out["error"] = "HANG2"
            except asyncio.CancelledError:
                raise
            except Exception as e2:
                out["error"] = "round2:" + type(e2).__name__
        out["events"] = list(rec.ev)
        out["realnames"] = realnames
        out["port_ids"] = {n: p.persistent_id for n, p in P.items()}
    finally:
        rec.uninstall()
        for cls, name, f in undo:
            setattr(cls, name, f)
        C["HCommand"].gate = None
        C["HCommand"].log = None
        try:
            await asyncio.wait_for(vctx.close(ctx), 30)
        except Exception:
            pass
        try:
            out["db"] = read_provenance(dbfile)
        except Exception as e:
            out["db"] = None
            out["db_error"] = repr(e)
        if not keep_db:
            import shutil
            shutil.rmtree(tmp, ignore_errors=True)
        else:
            out["tmp"] = tmp
    return out
