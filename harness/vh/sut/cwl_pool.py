"""A pool of worker processes that run CWL documents in-process with cwltool (the reference) and with
StreamFlow (the system under test).  Each worker imports both once; every run gets its own directory,
its own in-memory StreamFlow database and a watchdog: a worker that exceeds the deadline is killed and
replaced, and the run is reported as `hang` for the runner that was executing.
"""
from __future__ import annotations

import io
import json
import multiprocessing as mp
import multiprocessing.connection
import os
import shutil
import time

SF_FILE = """version: v1.0
workflows:
  w:
    type: cwl
    config:
      file: %s
database:
  type: default
  config:
    connection: ":memory:"
"""


def _parse(text):
    try:
        return json.loads(text)
    except Exception:
        return {"__unparsable__": text[-400:]}


def run_reference(d, wf, jobfile, ext):
    """cwltool in-process -> {"rc", "out", "err"}."""
    import cwltool.main
    out, err = io.StringIO(), io.StringIO()
    args = ["--quiet", "--no-container", "--outdir", os.path.join(d, "ref_out"),
            "--tmpdir-prefix", os.path.join(d, "ref_tmp", "t"), "--tmp-outdir-prefix", os.path.join(d, "ref_tmp", "o")]
    if ext:
        args.append("--enable-ext")
    args += [wf, jobfile]
    try:
        rc = cwltool.main.main(argsl=args, stdout=out, stderr=err)
    except SystemExit as e:
        rc = e.code if isinstance(e.code, int) else 1
    except BaseException as e:  # noqa: the oracle crashed: reported, never a verdict on StreamFlow
        return {"rc": "crash", "out": None, "err": "%s: %s" % (type(e).__name__, e)}
    return {"rc": rc, "out": _parse(out.getvalue()) if rc == 0 else None, "err": err.getvalue()[-1500:]}


class _Capture:
    def __init__(self):
        import logging

        class H(logging.Handler):
            def __init__(s):
                super().__init__(logging.WARNING)
                s.lines = []

            def emit(s, record):
                try:
                    s.lines.append(record.getMessage()[:600])
                except Exception:
                    pass
        self.h = H()


def run_streamflow(d, wf, jobfile):
    """streamflow.cwl.runner.main in-process -> {"rc", "out", "err"}; exceptions are observations."""
    import contextlib
    import logging
    from streamflow.cwl.runner import main as sfmain
    from streamflow.log_handler import logger
    sf = os.path.join(d, "streamflow.yml")
    with open(sf, "w") as f:
        f.write(SF_FILE % wf)
    cap = _Capture()
    logger.addHandler(cap.h)
    out, err = io.StringIO(), io.StringIO()
    cwd = os.getcwd()
    try:
        os.makedirs(os.path.join(d, "sf_out"), exist_ok=True)
        os.chdir(os.path.join(d, "sf_out"))
        with contextlib.redirect_stdout(out), contextlib.redirect_stderr(err):
            try:
                rc = sfmain(["--quiet", "--streamflow-file", sf, "--outdir", os.path.join(d, "sf_out"), wf, jobfile])
            except SystemExit as e:
                rc = e.code if isinstance(e.code, int) else 1
            except BaseException as e:  # noqa
                rc = "raise:%s" % type(e).__name__
                cap.h.lines.append("%s: %s" % (type(e).__name__, e))
    finally:
        os.chdir(cwd)
        logger.removeHandler(cap.h)
        logger.setLevel(logging.WARNING)
    msgs = [m for m in cap.h.lines if m]
    return {"rc": rc, "out": _parse(out.getvalue()) if rc == 0 else None, "err": "\n".join(msgs)[-1500:]}


def preload():
    """Import both runners in the calling process, so that forked workers start instantly."""
    import cwltool.main  # noqa
    import streamflow.cwl.runner  # noqa


def _worker(conn, tmp):
    os.environ["TMPDIR"] = tmp
    import tempfile
    tempfile.tempdir = None
    import logging
    import sys
    try:
        import cwltool.main  # noqa
        import streamflow.cwl.runner  # noqa
        # both runners log to the process's stderr through handlers created at import time; the driver keeps
        # what it needs (cwltool's stderr argument, a capturing handler on StreamFlow's logger)
        if not os.environ.get("VERIF_C29_STDERR"):
            null = open(os.devnull, "w")
            sys.stderr = null
            for lg in [logging.getLogger()] + [x for x in logging.root.manager.loggerDict.values()
                                               if isinstance(x, logging.Logger)]:
                for h in lg.handlers:
                    if isinstance(h, logging.StreamHandler) and not isinstance(h, logging.FileHandler):
                        h.setStream(null)
        conn.send(("ready", None, None))
    except BaseException as e:  # noqa
        conn.send(("import-error", None, "%s: %s" % (type(e).__name__, e)))
        return
    while True:
        try:
            task = conn.recv()
        except EOFError:
            return
        if task is None:
            return
        idx, d, ext, which = task
        wf, jobfile = os.path.join(d, "wf.cwl"), os.path.join(d, "job.json")
        if "ref" in which:
            t = time.time()
            r = run_reference(d, wf, jobfile, ext)
            r["t"] = round(time.time() - t, 3)
            conn.send(("ref", idx, r))
        if "sf" in which:
            t = time.time()
            r = run_streamflow(d, wf, jobfile)
            r["t"] = round(time.time() - t, 3)
            conn.send(("sf", idx, r))
        conn.send(("done", idx, None))


class Pool:
    def __init__(self, n, scratch, deadline=120.0, import_deadline=900.0):
        self.ctx = mp.get_context("fork")
        self.n, self.scratch, self.deadline, self.import_deadline = n, scratch, deadline, import_deadline
        self.workers = []
        self.respawns = 0
        self.import_s = []
        os.makedirs(os.path.join(scratch, "tmp"), exist_ok=True)

    def _spawn(self):
        a, b = self.ctx.Pipe()
        p = self.ctx.Process(target=_worker, args=(b, os.path.join(self.scratch, "tmp")), daemon=True)
        p.start()
        b.close()
        return {"p": p, "conn": a, "task": None, "phase": "import", "since": time.time(), "t0": time.time()}

    def run(self, tasks, which=("ref", "sf"), keep=False):
        """tasks: list of (idx, dir, ext).  Returns {idx: {"ref": r, "sf": r}}; a runner that exceeded the
        deadline has r = {"rc": "hang"}."""
        results = {t[0]: {} for t in tasks}
        dirs = {t[0]: t[1] for t in tasks}
        todo = list(reversed(tasks))
        n = min(self.n, max(1, len(tasks)))
        while len(self.workers) < n:
            self.workers.append(self._spawn())
        pending = len(tasks)
        while pending:
            now = time.time()
            for i, w in enumerate(self.workers):
                limit = self.import_deadline if w["phase"] == "import" else self.deadline
                if (w["phase"] != "idle") and now - w["since"] > limit:
                    # watchdog: kill, record, replace
                    w["p"].kill()
                    w["p"].join(5)
                    if w["phase"] == "import":
                        raise RuntimeError("worker import of cwltool/streamflow exceeded %ss" % limit)
                    idx = w["task"][0]
                    results[idx][w["phase"]] = {"rc": "hang", "out": None, "err": "no result after %ss" % limit}
                    if w["phase"] == "ref" and "sf" in which:
                        results[idx]["sf"] = {"rc": "not-run", "out": None, "err": ""}
                    pending -= 1
                    self.respawns += 1
                    self.workers[i] = self._spawn()
                elif not w["p"].is_alive() and w["phase"] != "idle" and not w["conn"].poll():
                    # the interpreter died (e.g. os._exit / segfault in the code under test)
                    if w["phase"] == "import":
                        raise RuntimeError("worker died while importing")
                    idx = w["task"][0]
                    results[idx][w["phase"]] = {"rc": "died", "out": None, "err": "worker process exited"}
                    if w["phase"] == "ref" and "sf" in which:
                        results[idx]["sf"] = {"rc": "not-run", "out": None, "err": ""}
                    pending -= 1
                    self.respawns += 1
                    self.workers[i] = self._spawn()
            conns = [w["conn"] for w in self.workers]
            for c in multiprocessing.connection.wait(conns, timeout=1.0):
                w = next(w for w in self.workers if w["conn"] is c)
                try:
                    kind, idx, payload = c.recv()
                except (EOFError, OSError):
                    continue
                if kind == "import-error":
                    raise RuntimeError("worker cannot import cwltool/streamflow: %s" % payload)
                if kind == "ready":
                    w["phase"] = "idle"
                    self.import_s.append(round(time.time() - w["t0"], 1))
                elif kind in ("ref", "sf"):
                    results[idx][kind] = payload
                    if kind == "ref" and "sf" in which:
                        w["phase"], w["since"] = "sf", time.time()
                elif kind == "done":
                    w["phase"], w["task"] = "idle", None
                    pending -= 1
                    if not keep:
                        shutil.rmtree(dirs[idx], ignore_errors=True)
            for w in self.workers:
                if w["phase"] == "idle" and todo:
                    t = todo.pop()
                    w["task"], w["phase"], w["since"] = t, which[0], time.time()
                    w["conn"].send((t[0], t[1], t[2], tuple(which)))
        return results

    def close(self):
        for w in self.workers:
            try:
                w["conn"].send(None)
            except Exception:
                pass
        t0 = time.time()
        for w in self.workers:
            w["p"].join(max(0.1, 5 - (time.time() - t0)))
            if w["p"].is_alive():
                w["p"].kill()
        self.workers = []
