"""Building real StreamFlow contexts for drivers (in-memory or file SQLite, local deployment only)."""
from __future__ import annotations

import os


def build(path: str | None = None, db: str = ":memory:", extra: dict | None = None):
    """A real StreamFlowContext (default scheduler, data manager, deployment manager, failure manager).
    `db` may be a file path so that a second, uncached connection can read the same database."""
    from streamflow.main import build_context
    cfg = {"database": {"type": "default", "config": {"connection": db}},
           "path": path or os.getcwd()}
    if extra:
        cfg.update(extra)
    return build_context(cfg)


async def close(ctx):
    try:
        await ctx.deployment_manager.undeploy_all()
    finally:
        await ctx.close()
