"""Real StreamFlow ports driven action by action (binding of module Port, property C03).

A `World` holds the real port objects of one scenario (see specs/Port/MC_Port.tla), one asyncio task per
outstanding `port.get(consumer)`, and what each consumer has received.  `apply(action)` performs one action of
the specification on the real objects; `project()` maps the real state to the concrete state of the
specification (token_list, queue contents, received tokens, pending gets, remaining boundary tags).

Scheduling: get tasks are started eagerly (they run synchronously up to their first suspension, exactly as
`await port.get(c)` does inside a step); the driver coroutine never yields between actions, except for the
action "wake", which lets the event loop run until nothing is ready (asyncio's own FIFO order, never reordered).
"""
from __future__ import annotations

import asyncio
import zlib

TAGMAP = {"a": "0.0", "b": "0.1", "c": "0.2"}
INV_TAGMAP = {v: k for k, v in TAGMAP.items()}

KINDS = {
    "plain1": {"p1": "plain"},
    "filter1": {"p1": "filter"},
    "inter_plain": {"p1": "inter", "p2": "plain"},
    "inter_inter": {"p1": "inter", "p2": "inter"},
    "inter_filter": {"p1": "inter", "p2": "filter"},
}


def _sf():
    from streamflow.core.workflow import Port, Status, Token, Workflow
    from streamflow.workflow import port as wp
    from streamflow.workflow.token import IterationTerminationToken, ListToken, TerminationToken
    return dict(Port=Port, Status=Status, Token=Token, Workflow=Workflow, wp=wp,
                IterationTerminationToken=IterationTerminationToken, ListToken=ListToken,
                TerminationToken=TerminationToken)


class World:
    def __init__(self, sfctx, scn: str, consumers: list, admit: list, variant: int = 0):
        sf = self.sf = _sf()
        wp = sf["wp"]
        self.scn, self.consumers, self.variant = scn, list(consumers), variant
        self.kinds = KINDS[scn]
        admitted = {TAGMAP[g] for g in admit}
        self.ports = {}
        self.names = {}
        plain_cls = [sf["Port"], wp.JobPort, wp.ConnectorPort]
        inter_cls = [wp.InterWorkflowPort, wp.InterWorkflowJobPort]
        for k, (p, kind) in enumerate(sorted(self.kinds.items())):
            # inter-workflow rules connect ports of different workflows
            wf = sf["Workflow"](context=sfctx, config={}, name="wf_%s" % p)
            if kind == "plain":
                port = wf.create_port(plain_cls[(variant + k) % 3], name="port_%s" % p)
            elif kind == "filter":
                port = wf.create_port(wp.FilterTokenPort, name="port_%s" % p,
                                      filter_function=(lambda t, adm=admitted: t.tag in adm))
            else:
                port = wf.create_port(inter_cls[(variant + k) % 2], name="port_%s" % p)
            self.ports[p] = port
            self.names[id(port)] = p
        self.tok = {}          # model id -> real token
        self.ids = {}          # id(real token) -> model id
        self.handed = {p: {} for p in self.ports}     # p -> id(real token) -> times handed to port.put (public entry)
        self.recv = {p: {c: [] for c in self.consumers} for p in self.ports}
        self.tasks = {p: {c: None for c in self.consumers} for p in self.ports}
        self.get_errors = {}
        self.last_exc = None
        self.close_raised = 0
        for p, port in self.ports.items():
            self._count_puts(p, port)

    def _count_puts(self, p, port):
        """Count what is handed to the port's public put (by the environment or by a boundary rule of another
        port); `super().put` of a self-targeting rule bypasses it, as it bypasses the virtual put in the code."""
        inner = port.put      # bound method of the real class
        handed = self.handed[p]

        def put(token):
            handed[id(token)] = handed.get(id(token), 0) + 1
            return inner(token)
        port.put = put

    # ---------------------------------------------------------------------------------------
    def class_of(self, p):
        return type(self.ports[p]).__name__

    def _make_token(self, i, g):
        sf = self.sf
        if g == "T":
            statuses = [sf["Status"].COMPLETED, sf["Status"].FAILED, sf["Status"].SKIPPED, sf["Status"].CANCELLED]
            t = sf["TerminationToken"](statuses[(self.variant + i) % len(statuses)])
        else:
            k = (self.variant + i) % 3
            if k == 0:
                t = sf["Token"](value="v%d" % i, tag=TAGMAP[g])
            elif k == 1:
                t = sf["ListToken"](value=[sf["Token"](value=i, tag=TAGMAP[g])], tag=TAGMAP[g])
            else:
                t = sf["IterationTerminationToken"](tag=TAGMAP[g])
        self.tok[i] = t
        self.ids[id(t)] = (i, g)
        return t

    async def _get(self, p, c):
        t = await self.ports[p].get(c)
        self.recv[p][c].append(t)
        return t

    async def apply(self, act) -> str | None:
        """Perform one action; returns None or 'raise:<Type>' when the code under test raised."""
        op, p, c = act["op"], act["p"], act["c"]
        self.last_exc = None
        try:
            if op in ("put", "term"):
                i = len(self.tok) + 1
                self.ports[p].put(self._make_token(i, act["tag"]))
            elif op == "get":
                old = self.tasks[p][c]
                if old is not None and not old.done():
                    raise RuntimeError("harness: get started while one is outstanding")
                loop = asyncio.get_running_loop()
                self.tasks[p][c] = asyncio.Task(self._get(p, c), loop=loop, eager_start=True)
            elif op == "wake":
                for _ in range(3):
                    await asyncio.sleep(0)
            elif op == "rule":
                BA = self.sf["wp"].BoundaryAction
                action = BA(0)
                if act["prop"]:
                    action |= BA.PROPAGATE
                if act["term"]:
                    action |= BA.TERMINATE
                self.ports[p].add_inter_port(self.ports[act["x"]], [TAGMAP[g] for g in act["tags"]], action)
            elif op == "close":
                try:
                    self.ports[p].close(c)
                except ValueError:
                    # task_done bookkeeping of asyncio.Queue: not constrained by the property
                    self.close_raised += 1
            else:
                raise RuntimeError("harness: unknown action %r" % (op,))
        except RuntimeError as e:
            if str(e).startswith("harness:"):
                raise
            self.last_exc = e
            return "raise:%s" % type(e).__name__
        except Exception as e:  # observation, not a harness crash
            self.last_exc = e
            return "raise:%s" % type(e).__name__
        return None

    # ---------------------------------------------------------------------------------------
    def label(self, t):
        known = self.ids.get(id(t))
        if known is not None:
            return {"id": known[0], "tag": known[1]}
        if isinstance(t, self.sf["TerminationToken"]):
            if t.value == self.sf["Status"].RECOVERED:
                return {"id": 0, "tag": "R"}
            return {"id": 0, "tag": "T:%s" % getattr(t.value, "name", t.value)}
        return {"id": 0, "tag": "?%s:%s" % (type(t).__name__, getattr(t, "tag", None))}

    def project(self) -> dict:
        st = {"tl": {}, "subs": {}, "q": {}, "dl": {}, "pd": {}, "rules": {}, "empty": {}}
        for p, port in self.ports.items():
            st["tl"][p] = [self.label(t) for t in port.token_list]
            st["empty"][p] = bool(port.empty())
            st["subs"][p] = sorted(port.queues.keys())
            st["q"][p], st["dl"][p], st["pd"][p] = {}, {}, {}
            for c in self.consumers:
                qu = port.queues.get(c)
                if qu is None:
                    st["q"][p][c] = []
                else:
                    inner = getattr(qu, "_queue", None)
                    if inner is not None and len(inner) == qu.qsize():
                        st["q"][p][c] = [self.label(t) for t in inner]
                    else:   # no access to the contents: sizes only
                        st["q"][p][c] = [{"id": -1, "tag": "?"}] * qu.qsize()
                st["dl"][p][c] = [self.label(t) for t in self.recv[p][c]]
                task = self.tasks[p][c]
                if task is None or (task.done() and not task.cancelled() and task.exception() is None):
                    st["pd"][p][c] = "none"
                elif not task.done():
                    st["pd"][p][c] = "pending"
                else:
                    st["pd"][p][c] = "raised:%s" % type(task.exception()).__name__ if not task.cancelled() else "cancelled"
            rules = []
            for b in getattr(port, "boundaries", []):
                BA = self.sf["wp"].BoundaryAction
                rules.append({"target": self.names.get(id(b.port), "?"),
                              "prop": BA.PROPAGATE in b.action, "term": BA.TERMINATE in b.action,
                              "tags": [INV_TAGMAP.get(g, "?" + str(g)) for g in b.tags]})
            st["rules"][p] = rules
        return st

    def real_state_properties(self) -> list:
        """The statement's state properties evaluated directly on the real objects (identity based).
        Returns a list of (clause, port, detail)."""
        bad = []
        for p, port in self.ports.items():
            tl = list(port.token_list)
            for c in self.consumers:
                got = self.recv[p][c]
                if len(got) > len(tl) or any(a is not b for a, b in zip(got, tl)):
                    bad.append(("delivered-not-prefix", p, {"consumer": c}))
                qu = port.queues.get(c)
                inner = getattr(qu, "_queue", None) if qu is not None else None
                if inner is not None:
                    seq = got + list(inner)
                    if len(seq) != len(tl) or any(a is not b for a, b in zip(seq, tl)):
                        bad.append(("delivered-plus-queue-differs-from-token-list", p, {"consumer": c}))
            seen = {}
            for t in tl:
                seen[id(t)] = seen.get(id(t), 0) + 1
            for t in tl:
                if id(t) in self.ids and seen[id(t)] > self.handed[p].get(id(t), 0):
                    bad.append(("double-enqueue", p, {"token": self.label(t), "times_in_token_list": seen[id(t)],
                                                      "times_handed_to_put": self.handed[p].get(id(t), 0)}))
                    break
        return bad

    async def shutdown(self):
        for p in self.tasks:
            for c, t in self.tasks[p].items():
                if t is not None and not t.done():
                    t.cancel()
        pend = [t for p in self.tasks for t in self.tasks[p].values() if t is not None]
        if pend:
            await asyncio.gather(*pend, return_exceptions=True)


def expected_projection(to: dict, ports, consumers) -> dict:
    """Model state (as emitted by Gen_Port) -> the shape of World.project()."""
    def seq(x):
        return list(x) if x else []
    st = {"tl": {}, "subs": {}, "q": {}, "dl": {}, "pd": {}, "rules": {}, "empty": {}}
    for p in ports:
        st["tl"][p] = seq(to["tl"][p])
        st["empty"][p] = not st["tl"][p]
        st["subs"][p] = sorted(seq(to["subs"][p]))
        st["q"][p] = {c: seq(to["q"][p][c]) for c in consumers}
        st["dl"][p] = {c: seq(to["dl"][p][c]) for c in consumers}
        st["pd"][p] = {c: ("none" if to["pd"][p][c] == "none" else "pending") for c in consumers}
        st["rules"][p] = [{"target": r["target"], "prop": r["prop"], "term": r["term"], "tags": seq(r["tags"])}
                          for r in seq(to["rules"][p])]
    return st


def variant_of(key: str) -> int:
    return zlib.crc32(key.encode()) % 12
