"""From a workflow description (see dflow.py) to the TLA+ instance of Dataflow.tla, the reference
(denotational) evaluation of the description, and the conversion of recorded events to trace records."""
from __future__ import annotations

from .dflow import val


def tla(v):
    if isinstance(v, bool):
        return "TRUE" if v else "FALSE"
    if isinstance(v, int):
        return str(v)
    if isinstance(v, str):
        return '"%s"' % v
    if isinstance(v, (list, tuple)):
        return "<<" + ", ".join(tla(x) for x in v) + ">>"
    if isinstance(v, (set, frozenset)):
        return "{" + ", ".join(sorted(tla(x) for x in v)) + "}"
    if isinstance(v, dict):
        return "[" + ", ".join("%s |-> %s" % (k, tla(x)) for k, x in v.items()) + "]"
    raise TypeError(v)


def expand(desc):
    """Model-level network: exec steps become deploy + sched + exec."""
    steps = []
    has_exec = any(s["kind"] == "exec" for s in desc["steps"])
    if has_exec:
        steps.append({"name": "dep", "kind": "deploy", "ins": [], "outs": ["__conn__"], "real": "/__deploy__/__LOCAL__"})
    for s in desc["steps"]:
        if s["kind"] == "exec":
            jp = s["name"] + ".job"
            steps.append({"name": s["name"] + ".sched", "kind": "sched", "ins": list(s["ins"]) + ["__conn__"], "outs": [jp],
                          "real": "/" + s["name"] + "/__schedule__"})
            steps.append({"name": s["name"], "kind": "exec", "ins": list(s["ins"]) + [jp], "outs": list(s["outs"]),
                          "real": "/" + s["name"]})
        else:
            steps.append(dict(s, real="/" + s["name"]))
    ports = []
    for s in steps:
        for p in s["ins"] + s["outs"]:
            if p not in ports:
                ports.append(p)
    for p in desc["inputs"]:
        if p not in ports:
            ports.append(p)
    return {"steps": steps, "ports": ports, "inputs": desc["inputs"], "outputs": desc["outputs"],
            "fail": desc.get("fail", [])}


def _fn(name, dom, items):
    # [x \in dom |-> CASE x = a -> va [] ...]
    body = " [] ".join('x = %s -> %s' % (tla(k), v) for k, v in items)
    return "%s == [x \\in %s |-> CASE %s]" % (name, dom, body)


def tok(t):
    return "Tok(%s, %s)" % (tla(t["tag"]), tla(t["val"]))


def constants_module(desc, module="MC_DF", extends="Dataflow", extra=""):
    m = expand(desc)
    names = [s["name"] for s in m["steps"]]
    lines = ["---- MODULE %s ----" % module, "EXTENDS %s" % extends,
             "cSteps == %s" % tla(set(names)),
             "cPorts == %s" % tla(set(m["ports"])),
             _fn("cKind", "cSteps", [(s["name"], tla(s["kind"])) for s in m["steps"]]),
             _fn("cIn", "cSteps", [(s["name"], tla(s["ins"])) for s in m["steps"]]),
             _fn("cOut", "cSteps", [(s["name"], tla(s["outs"])) for s in m["steps"]])]
    inp = []
    for p in m["ports"]:
        if p in m["inputs"]:
            seq = "<<" + ", ".join([tok(t) for t in m["inputs"][p]] + ['Term("completed")']) + ">>"
        else:
            seq = "<<>>"
        inp.append((p, seq))
    lines.append(_fn("cInputs", "cPorts", inp))
    lines.append("cOutPorts == %s" % tla(set(m["outputs"])))
    lines.append("cFail == {%s}" % ", ".join("<<%s, %s>>" % (tla(s), tla(t)) for s, t in m["fail"]))
    exp = expected(desc)
    lines.append("cExpected == {%s}" % ", ".join("<<%s, %s, %s>>" % (tla(p), tla(t), tla(v)) for p, t, v in exp["outputs"]))
    lines.append("Confluent == (xstate = \"returned\") => (outputs = cExpected)")
    lines.append(extra)
    lines.append("====")
    return "\n".join(lines)


CFG_CONST = """CONSTANTS
  Steps <- cSteps
  Ports <- cPorts
  Kind <- cKind
  In <- cIn
  Out <- cOut
  Inputs <- cInputs
  OutPorts <- cOutPorts
  Fail <- cFail
"""
SAFETY = ["ReturnMeansAllDone", "FailureMeansRaise", "OneTermPerStep", "ProvenanceOK", "PutImpliesPersisted",
          "ProvAcyclicByConstruction", "Confluent"]


def cfg(liveness=True, invariants=None, no_spurious=True):
    inv = list(invariants if invariants is not None else SAFETY)
    if no_spurious:
        inv.append("NoSpuriousRaise")
    s = CFG_CONST + "SPECIFICATION Spec\n" + "".join("INVARIANT %s\n" % i for i in inv)
    if liveness:
        s += "PROPERTY ExecutorEnds\nPROPERTY EveryStepEnds\n"
    return s


# ------------------------------------------------------------------------------------------------
# reference (denotational) evaluation: independent of any interleaving
# ------------------------------------------------------------------------------------------------
def expected(desc):
    """Streams per port as dict tag-tuple -> value; returns outputs as list of (port, tag, value) holding,
    per output port, the LAST value the executor keeps... the executor keeps one value per port
    (output_tokens[port] = value), so for ports with several tokens the result depends on order; the
    generator only declares as outputs ports that carry at most one token per run."""
    streams = {p: {tuple(t["tag"]): t["val"] for t in toks} for p, toks in desc["inputs"].items()}
    fail = {(s, tuple(t)) for s, t in desc.get("fail", [])}
    failed_ports = set()
    pending = list(desc["steps"])
    progress = True
    while pending and progress:
        progress = False
        for s in list(pending):
            if not all(p in streams for p in s["ins"]):
                continue
            pending.remove(s)
            progress = True
            ins = [streams[p] for p in s["ins"]]
            k = s["kind"]
            upstream_failed = any(p in failed_ports for p in s["ins"])
            if k in ("fwd", "exec", "cond"):
                tags = set(ins[0])
                for d in ins[1:]:
                    tags &= set(d)
                out = {}
                outs = [dict() for _ in s["outs"]]
                for t in sorted(tags):
                    tot = sum(val(d[t]) for d in ins)
                    if k == "fwd":
                        outs[0][t] = 1 + tot
                    elif k == "exec":
                        if (s["name"], t) in fail:
                            upstream_failed = True
                        else:
                            outs[0][t] = 2 * tot
                    else:
                        if tot % 2 == 0:
                            for i, d in enumerate(ins):
                                outs[i][t] = d[t]
                for p, o in zip(s["outs"], outs):
                    streams[p] = o
            elif k == "scatter":
                el, sz = {}, {}
                for t, v in ins[0].items():
                    for i, x in enumerate(v):
                        el[t + (i,)] = x
                    sz[t] = len(v)
                streams[s["outs"][0]], streams[s["outs"][1]] = el, sz
            elif k == "gather":
                groups = {}
                for t, v in ins[0].items():
                    groups.setdefault(t[:-1], []).append((t, v))
                out = {}
                for key, items in groups.items():
                    out[key] = [v for _, v in sorted(items, key=lambda x: (len(x[0]), x[0]))]
                for key, n in ins[1].items():
                    if n == 0:
                        out.setdefault(key, [])
                streams[s["outs"][0]] = out
            elif k == "dot":
                tags = set(ins[0])
                for d in ins[1:]:
                    tags &= set(d)
                for i, p in enumerate(s["outs"]):
                    streams[p] = {t: ins[i][t] for t in tags}
            else:
                raise ValueError(k)
            if upstream_failed:
                failed_ports.update(s["outs"])
    outs = []
    for p in desc["outputs"]:
        for t, v in sorted(streams.get(p, {}).items()):
            outs.append((p, list(t), v))
    return {"outputs": outs, "fails": bool(fail), "streams": streams,
            "output_failed": any(p in failed_ports for p in desc["outputs"])}
