"""From a workflow description (see dflow.py) to the TLA+ instance of Dataflow.tla, the reference
(denotational) evaluation of the description, and the conversion of recorded events to trace records."""
from __future__ import annotations

from .dflow import elem, topval, val


def tla(v):
    if isinstance(v, bool):
        return "TRUE" if v else "FALSE"
    if isinstance(v, int):
        return str(v)
    if isinstance(v, str):
        return '"%s"' % v
    if isinstance(v, (list, tuple)):
        return "<<" + ", ".join(tla(x) for x in v) + ">>"
    if isinstance(v, (set, frozenset)):
        return "{" + ", ".join(sorted(tla(x) for x in v)) + "}"
    if isinstance(v, dict):
        return "[" + ", ".join("%s |-> %s" % (k, tla(x)) for k, x in v.items()) + "]"
    raise TypeError(v)


def expand(desc):
    """Model-level network: exec steps become deploy + sched + exec."""
    steps = []
    has_exec = any(s["kind"] == "exec" for s in desc["steps"])
    # a binding with several targets (desc["targets"] = k): one DeployStep and one connector port per target, every
    # ScheduleStep reads all of them
    conns = ["__conn__"] + ["__conn%d__" % i for i in range(2, int(desc.get("targets", 1)) + 1)]
    if has_exec:
        steps.append({"name": "dep", "kind": "deploy", "ins": [], "outs": ["__conn__"], "real": "/__deploy__/__LOCAL__"})
        for i, c in enumerate(conns[1:], start=2):
            steps.append({"name": "dep%d" % i, "kind": "deploy", "ins": [], "outs": [c], "real": "/__deploy__/L%d" % i})
    for s in desc["steps"]:
        if s["kind"] == "exec":
            jp = s["name"] + ".job"
            steps.append({"name": s["name"] + ".sched", "kind": "sched", "ins": list(s["ins"]) + conns, "outs": [jp],
                          "nconn": len(conns), "real": "/" + s["name"] + "/__schedule__"})
            steps.append({"name": s["name"], "kind": "exec", "ins": list(s["ins"]) + [jp], "outs": list(s["outs"]),
                          "real": "/" + s["name"]})
        else:
            steps.append(dict(s, real="/" + s["name"]))
    ports = []
    for s in steps:
        for p in s["ins"] + s["outs"]:
            if p not in ports:
                ports.append(p)
    for p in desc["inputs"]:
        if p not in ports:
            ports.append(p)
    return {"steps": steps, "ports": ports, "inputs": desc["inputs"], "outputs": desc["outputs"],
            "fail": desc.get("fail", [])}


def _fn(name, dom, items):
    # [x \in dom |-> CASE x = a -> va [] ...]
    body = " [] ".join('x = %s -> %s' % (tla(k), v) for k, v in items)
    return "%s == [x \\in %s |-> CASE %s]" % (name, dom, body)


def tok(t):
    return "%s(%s, %s)" % ("LTok" if isinstance(t["val"], list) else "Tok", tla(t["tag"]), tla(topval(t["val"])))


def _fnv(dom, items):
    # an explicit function (k1 :> v1 @@ k2 :> v2): a concrete value, evaluated once (a [x \\in S |-> CASE ...] constructor is
    # evaluated lazily at every application)
    return "(" + " @@ ".join("%s :> %s" % (tla(k), v) for k, v in items) + ")" if items else "<<>>"


def net_record(desc):
    m = expand(desc)
    names = [s["name"] for s in m["steps"]]
    steps = tla(set(names))
    ports = tla(set(m["ports"]))
    inp = []
    for p in m["ports"]:
        if p in m["inputs"]:
            seq = "<<" + ", ".join([tok(t) for t in m["inputs"][p]] + ['Term("completed")']) + ">>"
        else:
            seq = "<<>>"
        inp.append((p, seq))
    exp = expected(desc)
    fields = [
        ("steps", steps), ("ports", ports),
        ("kind", _fnv(steps, [(s["name"], tla(s["kind"])) for s in m["steps"]])),
        ("ins", _fnv(steps, [(s["name"], tla(s["ins"])) for s in m["steps"]])),
        ("nconn", _fnv(steps, [(s["name"], str(s.get("nconn", 0))) for s in m["steps"]])),
        ("outs", _fnv(steps, [(s["name"], tla(s["outs"])) for s in m["steps"]])),
        ("inputs", _fnv(ports, inp)),
        ("depth", _fnv(steps, [(x["name"], str(x.get("depth", 1))) for x in m["steps"]])),
        ("outports", tla(set(m["outputs"]))),
        ("fail", "{%s}" % ", ".join("<<%s, %s>>" % (tla(s), tla(t)) for s, t in m["fail"])),
        ("expected", "{%s}" % ", ".join("<<%s, %s, %s>>" % (tla(p), tla(t), tla(topval(v))) for p, t, v in exp["outputs"])),
        ("deadend", "TRUE" if "dead-end" in desc.get("classes", []) else "FALSE"),
    ]
    return "[" + ",\n   ".join("%s |-> %s" % f for f in fields) + "]"


def constants_module(descs, module="MC_DF", extends="Dataflow", extra=""):
    """One instance module for a whole batch of networks (cNets)."""
    if isinstance(descs, dict):
        descs = [descs]
    lines = ["---- MODULE %s ----" % module, "EXTENDS %s" % extends,
             "cNets == <<\n  " + ",\n  ".join(net_record(d) for d in descs) + "\n>>", extra, "===="]
    return "\n".join(lines)


CFG_CONST = "CONSTANT Nets <- cNets\n"
SAFETY = ["ReturnMeansAllDone", "FailureMeansRaise", "OneTermPerStep", "ProvenanceOK", "PutImpliesPersisted",
          "ProvAcyclicByConstruction", "Confluent", "OnlyCloseCancelRaises", "QuiescentMeansEnded", "JobMatchesGroup"]


def cfg(liveness=True, invariants=None, spec="SpecQ"):
    inv = list(invariants if invariants is not None else SAFETY)
    s = CFG_CONST + "SPECIFICATION %s\n" % spec + "".join("INVARIANT %s\n" % i for i in inv)
    if liveness:
        s += "PROPERTY ExecutorEnds\nPROPERTY EveryStepEnds\n"
    return s


TRACE_CFG = CFG_CONST + "INIT TInit\nNEXT TNext\nINVARIANT Accept\nCONSTRAINT Diag\n" + \
    "".join("INVARIANT %s\n" % i for i in SAFETY if i not in ("Confluent", "QuiescentMeansEnded"))


# ------------------------------------------------------------------------------------------------
# reference (denotational) evaluation: independent of any interleaving
# ------------------------------------------------------------------------------------------------
def expected(desc):
    """Streams per port as dict tag-tuple -> value; returns outputs as list of (port, tag, value) holding,
    per output port, the LAST value the executor keeps... the executor keeps one value per port
    (output_tokens[port] = value), so for ports with several tokens the result depends on order; the
    generator only declares as outputs ports that carry at most one token per run."""
    streams = {p: {tuple(t["tag"]): t["val"] for t in toks} for p, toks in desc["inputs"].items()}
    fail = {(s, tuple(t)) for s, t in desc.get("fail", [])}
    failed_ports = set()
    pending = list(desc["steps"])
    progress = True
    while pending and progress:
        progress = False
        for s in list(pending):
            if not all(p in streams for p in s["ins"]):
                continue
            pending.remove(s)
            progress = True
            ins = [streams[p] for p in s["ins"]]
            k = s["kind"]
            upstream_failed = any(p in failed_ports for p in s["ins"])
            if k in ("fwd", "mul", "exec", "cond"):
                tags = set(ins[0])
                for d in ins[1:]:
                    tags &= set(d)
                out = {}
                outs = [dict() for _ in s["outs"]]
                for t in sorted(tags):
                    tot = sum(val(d[t]) for d in ins)
                    if k == "fwd":
                        outs[0][t] = 1 + tot
                    elif k == "mul":
                        pr = 1
                        for d in ins:
                            pr *= val(d[t])
                        outs[0][t] = pr
                    elif k == "exec":
                        if (s["name"], t) in fail:
                            upstream_failed = True
                        else:
                            outs[0][t] = 2 * tot
                    else:
                        if tot % 2 == 0:
                            for i, d in enumerate(ins):
                                outs[i][t] = d[t]
                for p, o in zip(s["outs"], outs):
                    streams[p] = o
            elif k == "scatter":
                el, sz = {}, {}
                for t, v in ins[0].items():
                    for i, x in enumerate(v):
                        el[t + (i,)] = x
                    sz[t] = len(v)
                streams[s["outs"][0]], streams[s["outs"][1]] = el, sz
            elif k == "gather":
                groups = {}
                dp = s.get("depth", 1)
                for t, v in ins[0].items():
                    groups.setdefault(t[:-dp], []).append((t, v))
                out = {}
                for key, items in groups.items():
                    out[key] = [v for _, v in sorted(items, key=lambda x: (len(x[0]), x[0]))]
                for key, n in ins[1].items():
                    # a key that received its size token exists in token_map: emitted on size arrival when n = 0, or by
                    # the forced gather at the end of the stream when elements are missing (possibly all of them)
                    out.setdefault(key, [])
                streams[s["outs"][0]] = out
            elif k == "cart":
                o1, o2 = {}, {}
                for t1, v1 in ins[0].items():
                    for t2, v2 in ins[1].items():
                        if t1[:-1] == t2[:-1]:
                            nt = t1[:-1] + (t1[-1], t2[-1])
                            o1[nt], o2[nt] = v1, v2
                streams[s["outs"][0]], streams[s["outs"][1]] = o1, o2
            elif k == "dot":
                tags = set(ins[0])
                for d in ins[1:]:
                    tags &= set(d)
                for i, p in enumerate(s["outs"]):
                    streams[p] = {t: ins[i][t] for t in tags}
            else:
                raise ValueError(k)
            if upstream_failed:
                failed_ports.update(s["outs"])
    outs = []
    for p in desc["outputs"]:
        for t, v in sorted(streams.get(p, {}).items()):
            outs.append((p, list(t), v))
    return {"outputs": outs, "fails": bool(fail), "streams": streams,
            "output_failed": any(p in failed_ports for p in desc["outputs"])}


# ------------------------------------------------------------------------------------------------
# recorded events -> trace records for Trace_Dataflow
# ------------------------------------------------------------------------------------------------
def to_trace(desc, run):
    """Deterministic relabelling of a recorded run: database ids -> token identities <<port, tag>>,
    persist+put pairs -> "emit", termination puts of one terminate() call -> "term".
    Returns (trace, problems) where problems lists events that cannot even be expressed (e.g. unknown step)."""
    m = expand(desc)
    real2model = {s["real"]: s["name"] for s in m["steps"]}
    ident = {}
    problems = []
    toks_db, prov_db, ports_db = run["db"] if run.get("db") else ({}, [], {})

    def identity(i):
        if i in ident:
            return ident[i]
        if i in toks_db:
            row = toks_db[i]
            return [ports_db.get(row["port"], "?port%s" % row["port"]), [int(c) for c in row["tag"].split(".")]]
        return ["?unknown", [i]]

    def tokfields(e):
        k = e["k"]
        v = e.get("val", 0)
        if k == "job":
            return "job", 0
        if isinstance(v, list):
            return "lst", topval(v)
        if isinstance(v, str):      # connector token
            return "tok", 0
        return "tok", v

    pending = {}
    out = []
    evs = run["events"]
    i = 0
    while i < len(evs):
        e = evs[i]
        ev = e["ev"]
        if ev == "persist":
            pending[e["id"]] = e
            ident[e["id"]] = [e["port"], e["tag"]]
        elif ev == "put":
            if e.get("step") is None:
                if e["k"] != "term" and e.get("id") is not None:
                    ident[e["id"]] = [e["port"], e["tag"]]
            elif e["k"] == "term":
                step = real2model.get(e["step"])
                if step is None:
                    problems.append({"what": "termination put by unknown step", "event": e})
                else:
                    # group the termination puts of this terminate() call
                    ports = [e["port"]]
                    j = i + 1
                    while j < len(evs) and evs[j]["ev"] == "put" and evs[j].get("k") == "term" and evs[j].get("step") == e["step"] \
                            and evs[j]["st"] == e["st"] and evs[j]["port"] not in ports:
                        ports.append(evs[j]["port"])
                        j += 1
                    out.append({"ev": "term", "step": step, "st": e["st"], "ports": ports})
                    i = j
                    continue
            else:
                step = real2model.get(e["step"])
                k, v = tokfields(e)
                rec = {"step": step or ("?" + str(e["step"])), "port": e["port"], "k": k, "tag": e["tag"], "val": v}
                p = pending.pop(e.get("id"), None) if e.get("id") is not None else None
                if p is None:
                    rec["ev"] = "rawput"
                    rec["deps"] = []
                else:
                    rec["ev"] = "emit"
                    rec["deps"] = sorted(identity(x) for x in p["inputs"])
                out.append(rec)
        elif ev == "return":
            out.append({"ev": "return", "outs": sorted([[k, topval(v)] for k, v in (run.get("result") or {}).items()], key=lambda x: x[0])})
        elif ev == "raise":
            out.append({"ev": "raise", "outs": []})
        i += 1
    return out, problems
