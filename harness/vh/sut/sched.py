"""Scheduler checks (C10, C11, C12): configurations, TLA+ instance generation, fake deployments around the REAL
DefaultScheduler, B-env replay of TLC behaviours with projection comparison and direct property oracles.

A *configuration* is one python dict shared by the model (rendered into an MC module) and by the implementation
side (rendered into fake connectors returning AvailableLocation objects, Jobs, Targets, requirements).
"""
from __future__ import annotations

import asyncio
import json
import posixpath

STATUSES = ["RUNNING", "COMPLETED", "FAILED", "CANCELLED", "RECOVERY", "ROLLBACK"]
MOUNT_PATH = {"r": "/", "d": "/data"}          # model mount ids -> mount points of the fake locations


# ------------------------------------------------------------------------------------------------
# configurations
# ------------------------------------------------------------------------------------------------
def hwloc(dep, c, m, r, d, wraps="none", bind=None, name=None):
    return {"dep": dep, "kind": "hw", "cap": {"c": c, "m": m, "s": {"r": r, "d": d}}, "slots": 0,
            "wraps": wraps, "bind": bind or {"r": "none", "d": "none"}, "name": name}


def slotloc(dep, slots, wraps="none", name=None):
    return {"dep": dep, "kind": "slots", "cap": {"c": 0, "m": 0, "s": {"r": 0, "d": 0}}, "slots": slots,
            "wraps": wraps, "bind": {"r": "none", "d": "none"}, "name": name}


def job(c, m, r, d, targets, ur=0, ud=0, step="s", tag=0, split=None):
    """split = {mount: [x, y]}: the requirement on that mount point is declared as TWO storage entries (two keys,
    like CWL's tmpdir and outdir) whose sizes add up to the per-mount total the model reasons about"""
    J = {"c": c, "m": m, "s": {"r": r, "d": d}, "u": {"r": ur, "d": ud},
         "targets": [{"dep": t[0], "k": t[1]} for t in targets], "step": step, "tag": tag, "split": split or {}}
    for mm, parts in J["split"].items():
        assert sum(parts) == J["s"][mm] and len(parts) == 2
    return J


def finish(cfg):
    cfg.setdefault("mounts", ["r", "d"])
    cfg.setdefault("root", "r")
    cfg.setdefault("maxgen", 1)
    cfg.setdefault("maxdup", 0)
    cfg.setdefault("engine", "engine")
    cfg.setdefault("gate_usage", False)
    cfg.setdefault("usage_faults", False)      # the parked usage probe of a release may also FAIL (needs gate_usage)
    assert cfg["gate_usage"] or not cfg["usage_faults"]
    for k, l in cfg["locs"].items():
        if not l.get("name"):
            l["name"] = k
    return cfg


def CONFIGS():
    """Named configurations.  Locations: hardware (cores, memory, storage on / and /data) or slots; stacked
    locations (a container-like deployment wrapping a host); multi-location targets; several deployments."""
    C = {}
    # two hardware locations in one deployment + one slot location in another; two-target jobs
    C["basic"] = finish({
        "locs": {"L1": hwloc("D1", 2, 2, 2, 2), "L2": slotloc("D2", 1)},
        "deps": {"D1": ["L1"], "D2": ["L2"]},
        "jobs": {"a": job(2, 1, 1, 1, [("D1", 1), ("D2", 1)], ur=1, tag=0),
                 "b": job(1, 1, 1, 0, [("D1", 1), ("D2", 1)], tag=1),
                 "c": job(1, 2, 0, 1, [("D2", 1)], ud=1, tag=2)},
    })
    # storage-bound: capacity on /data decides; usage residue stays reserved
    C["storage"] = finish({
        "locs": {"L1": hwloc("D1", 4, 4, 2, 3), "L2": hwloc("D1", 1, 4, 4, 1)},
        "deps": {"D1": ["L1", "L2"]},
        "jobs": {"a": job(1, 1, 1, 2, [("D1", 1)], ur=1, ud=1, tag=0),
                 "b": job(1, 1, 0, 2, [("D1", 1)], ud=2, tag=1),
                 "c": job(1, 1, 2, 1, [("D1", 1)], tag=2)},
    })
    # multi-location target (k = 2) competing with single-location jobs
    C["multi"] = finish({
        "locs": {"L1": hwloc("D1", 2, 2, 2, 2), "L2": hwloc("D1", 1, 2, 2, 2), "L3": hwloc("D1", 1, 1, 1, 1)},
        "deps": {"D1": ["L1", "L2", "L3"]},
        "jobs": {"a": job(1, 1, 1, 0, [("D1", 2)], tag=0),
                 "b": job(1, 1, 0, 1, [("D1", 1)], ud=1, tag=1),
                 "c": job(1, 1, 1, 1, [("D1", 2)], tag=2)},
    })
    # stacked: container deployment DC with one location wrapping the host H (hardware), /data bound to host /data
    C["stacked"] = finish({
        "locs": {"C1": hwloc("DC", 2, 2, 2, 2, wraps="H", bind={"r": "none", "d": "d"}),
                 "H": hwloc("DH", 3, 2, 4, 2)},
        "deps": {"DC": ["C1"], "DH": ["H"]},
        "jobs": {"a": job(1, 1, 1, 1, [("DC", 1)], ud=1, tag=0),
                 "b": job(2, 1, 0, 1, [("DH", 1), ("DC", 1)], tag=1),
                 "c": job(1, 1, 1, 1, [("DC", 1), ("DH", 1)], tag=2)},
    })
    # stacked, two replicas wrapping the SAME host (docker-compose like): the inner requirement is merged with |=
    C["replicas"] = finish({
        "locs": {"C1": hwloc("DC", 1, 1, 2, 2, wraps="H", bind={"r": "none", "d": "d"}),
                 "C2": hwloc("DC", 1, 1, 2, 2, wraps="H", bind={"r": "none", "d": "d"}),
                 "H": hwloc("DH", 4, 4, 4, 4)},
        "deps": {"DC": ["C1", "C2"], "DH": ["H"]},
        "jobs": {"a": job(1, 1, 1, 1, [("DC", 1)], tag=0),
                 "b": job(1, 1, 0, 1, [("DC", 1)], tag=1)},
    })
    # stacked over a slot-only host + rollback and re-schedule (the ROLLBACK priority rule on the wrapped list)
    C["rollback"] = finish({
        "locs": {"C1": slotloc("DC", 2, wraps="H"), "H": slotloc("DH", 2)},
        "deps": {"DC": ["C1"], "DH": ["H"]},
        "jobs": {"a": job(1, 1, 0, 0, [("DC", 1)], tag=0),
                 "b": job(1, 1, 0, 0, [("DC", 1), ("DH", 1)], tag=1)},
        "maxgen": 2,
    })
    # slot-only wrapper over a slot-only host with FEWER slots than the wrapper: the wrapped level decides (since the
    # ROLLBACK fix 7b15517 configuration `rollback` never fills H, so nothing else made the inner slot level bind)
    C["slotstack"] = finish({
        "locs": {"C1": slotloc("DC", 2, wraps="H"), "H": slotloc("DH", 1)},
        "deps": {"DC": ["C1"], "DH": ["H"]},
        "jobs": {"a": job(1, 1, 0, 0, [("DC", 1)], tag=0),
                 "b": job(1, 1, 0, 0, [("DC", 1), ("DH", 1)], tag=1)},
    })
    # rollback on plain hardware locations, two targets (losers of generation 1 still waiting)
    C["retry"] = finish({
        "locs": {"L1": hwloc("D1", 1, 1, 1, 1), "L2": slotloc("D2", 1)},
        "deps": {"D1": ["L1"], "D2": ["L2"]},
        "jobs": {"a": job(1, 1, 1, 0, [("D1", 1), ("D2", 1)], ur=1, tag=0),
                 "b": job(1, 1, 0, 0, [("D2", 1), ("D1", 1)], tag=1)},
        "maxgen": 2,
    })
    # hostile environment for C11: duplicates, FIREABLE -> CANCELLED/FAILED
    C["hostile"] = finish({
        "locs": {"L1": hwloc("D1", 2, 2, 2, 2), "L2": slotloc("D1", 1)},
        "deps": {"D1": ["L1", "L2"]},
        "jobs": {"a": job(2, 1, 1, 1, [("D1", 1)], ur=1, tag=0),
                 "b": job(1, 2, 1, 0, [("D1", 1)], tag=1),
                 "c": job(1, 1, 0, 1, [("D1", 1)], ud=1, tag=2)},
        "maxdup": 1, "engine": "contract",
    })
    # small hostile instance (replayed in the quick tier): duplicates, cancellation before RUNNING, two locations
    C["cancel"] = finish({
        "locs": {"L1": hwloc("D1", 2, 2, 2, 2), "L2": slotloc("D2", 1)},
        "deps": {"D1": ["L1"], "D2": ["L2"]},
        "jobs": {"a": job(2, 1, 1, 1, [("D1", 1), ("D2", 1)], ur=1, tag=0),
                 "b": job(1, 2, 1, 0, [("D1", 1)], tag=1)},
        "maxdup": 1, "engine": "contract",
    })
    # two storage keys aliased to ONE mount point (tmpdir + outdir on /): capacity on / lies in [max(entry), sum(entries))
    # for c alone (never fits L1) and for b after a (fits only if the entries are compared one by one)
    C["aliased"] = finish({
        "locs": {"L1": hwloc("D1", 3, 3, 3, 2), "L2": slotloc("D2", 1)},
        "deps": {"D1": ["L1"], "D2": ["L2"]},
        "jobs": {"a": job(1, 1, 2, 0, [("D1", 1)], ur=1, tag=0, split={"r": [1, 1]}),
                 "b": job(1, 1, 2, 1, [("D1", 1)], tag=1, split={"r": [1, 1]}),
                 "c": job(1, 1, 4, 0, [("D1", 1), ("D2", 1)], tag=2, split={"r": [2, 2]})},
    })
    # overlapping releases: the usage measurement of _free_resources is a gated completion (GateUsage), so several
    # notify_status calls for jobs on ONE hardware location are in flight at once, in every order
    C["overlap"] = finish({
        "locs": {"L1": hwloc("D1", 2, 2, 3, 2)},
        "deps": {"D1": ["L1"]},
        "jobs": {"a": job(1, 1, 1, 1, [("D1", 1)], ur=1, tag=0),
                 "b": job(1, 1, 1, 0, [("D1", 1)], tag=1),
                 "c": job(2, 1, 1, 0, [("D1", 1)], tag=2)},
        "gate_usage": True,
    })
    # ROLLBACK reaching a job that still HOLDS its resources (FIREABLE -> ROLLBACK, RUNNING -> ROLLBACK, no FAILED/RECOVERY
    # in between: engine "contract"), on a hardware-accounted location with non-zero requirements; a saturates L1, so b
    # waits for the release that the ROLLBACK must perform; duplicated ROLLBACKs; re-schedule of the rolled-back job
    C["rbactive"] = finish({
        "locs": {"L1": hwloc("D1", 2, 2, 2, 2)},
        "deps": {"D1": ["L1"]},
        "jobs": {"a": job(2, 1, 1, 1, [("D1", 1)], ur=1, tag=0),
                 "b": job(1, 1, 1, 0, [("D1", 1)], tag=1)},
        "maxgen": 2, "maxdup": 1, "engine": "contract",
    })
    # the same class on a stacked hardware deployment (release on both levels + list removal on both levels) with the
    # measurement gated: other notifications and requests arrive while the rolling-back notifier is measuring
    C["rbstacked"] = finish({
        "locs": {"C1": hwloc("DC", 2, 2, 2, 2, wraps="H", bind={"r": "none", "d": "d"}),
                 "H": hwloc("DH", 2, 2, 4, 2)},
        "deps": {"DC": ["C1"], "DH": ["H"]},
        "jobs": {"a": job(1, 1, 1, 1, [("DC", 1)], ud=1, tag=0),
                 "b": job(2, 1, 0, 1, [("DH", 1), ("DC", 1)], tag=1)},
        "maxgen": 2, "engine": "contract", "gate_usage": True,
    })
    # faults of the usage probe at release time: the gated measurement of _free_resources either completes (UsageDone) or
    # FAILS (UsageFail: the reservation is released with zero measured usage); a saturates the cores of L1, c needs them
    C["probefail"] = finish({
        "locs": {"L1": hwloc("D1", 2, 2, 3, 2)},
        "deps": {"D1": ["L1"]},
        "jobs": {"a": job(2, 1, 1, 1, [("D1", 1)], ur=1, ud=1, tag=0),
                 "c": job(2, 1, 2, 0, [("D1", 1)], ur=1, tag=2)},
        "gate_usage": True, "usage_faults": True, "maxdup": 1,
    })
    # three jobs (two fit at once): failed and successful probes of different jobs in every order (thorough tier)
    C["probefail3"] = finish({
        "locs": {"L1": hwloc("D1", 2, 2, 3, 2)},
        "deps": {"D1": ["L1"]},
        "jobs": {"a": job(2, 1, 1, 1, [("D1", 1)], ur=1, ud=1, tag=0),
                 "b": job(1, 1, 1, 0, [("D1", 1)], ur=1, tag=1),
                 "c": job(2, 1, 2, 0, [("D1", 1)], tag=2)},
        "gate_usage": True, "usage_faults": True,
    })
    # probe faults on a stacked hardware deployment (the probe of every level fails), contract engine
    C["probestacked"] = finish({
        "locs": {"C1": hwloc("DC", 2, 2, 2, 2, wraps="H", bind={"r": "none", "d": "d"}),
                 "H": hwloc("DH", 2, 2, 4, 2)},
        "deps": {"DC": ["C1"], "DH": ["H"]},
        "jobs": {"a": job(1, 1, 1, 1, [("DC", 1)], ud=1, tag=0),
                 "b": job(2, 1, 0, 1, [("DH", 1), ("DC", 1)], ud=1, tag=1)},
        "engine": "contract", "gate_usage": True, "usage_faults": True,
    })
    # larger instances (simulation only)
    C["big"] = finish({
        "locs": {"L1": hwloc("D1", 3, 4, 4, 3), "L2": hwloc("D1", 2, 2, 2, 4), "L3": slotloc("D2", 2),
                 "C1": hwloc("DC", 2, 2, 3, 3, wraps="H", bind={"r": "none", "d": "r"}), "H": hwloc("DH", 2, 3, 5, 2)},
        "deps": {"D1": ["L1", "L2"], "D2": ["L3"], "DC": ["C1"], "DH": ["H"]},
        "jobs": {"a": job(2, 1, 1, 1, [("D1", 1), ("D2", 1)], ur=1, tag=0),
                 "b": job(1, 2, 2, 0, [("D1", 2)], tag=1),
                 "c": job(1, 1, 1, 2, [("DC", 1), ("D1", 1)], ud=1, tag=2),
                 "d": job(2, 2, 0, 1, [("DH", 1), ("D2", 1), ("D1", 1)], tag=3),
                 "e": job(1, 1, 1, 1, [("D2", 1), ("DC", 1)], ur=1, ud=1, tag=4)},
        "maxgen": 2, "maxdup": 1, "engine": "contract",
    })
    for k, v in C.items():
        v["id"] = k
    return C


# ------------------------------------------------------------------------------------------------
# TLA+ rendering
# ------------------------------------------------------------------------------------------------
def _s(x):
    return '"%s"' % x


def _set(xs):
    return "{" + ", ".join(_s(x) for x in xs) + "}"


def _fn(d, val):
    """string-keyed TLA+ function"""
    items = ["%s :> %s" % (_s(k), val(v)) for k, v in d.items()]
    return "(" + " @@ ".join(items) + ")"


def _seq(xs, val=_s):
    return "<<" + ", ".join(val(x) for x in xs) + ">>"


def _hw(h):
    return "[c |-> %d, m |-> %d, s |-> %s, u |-> %s]" % (h["c"], h["m"], _fn(h["s"], str), _fn({k: 0 for k in h["s"]}, str))


def render_mc(cfg, module):
    L, J = cfg["locs"], cfg["jobs"]
    lines = ["---- MODULE %s ----" % module, "EXTENDS Scheduler, Json",
             "c_Jobs == " + _set(J), "c_Locs == " + _set(L), "c_Deps == " + _set(cfg["deps"]),
             "c_Mounts == " + _set(cfg["mounts"]), "c_Root == " + _s(cfg["root"]),
             "c_LDep == " + _fn(L, lambda l: _s(l["dep"])),
             "c_LName == " + _fn(L, lambda l: _s(l["name"])),
             "c_LKind == " + _fn(L, lambda l: _s(l["kind"])),
             "c_LCap == " + _fn(L, lambda l: _hw(l["cap"])),
             "c_LSlots == " + _fn(L, lambda l: str(l["slots"])),
             "c_LWraps == " + _fn(L, lambda l: _s(l["wraps"])),
             "c_LBind == " + _fn(L, lambda l: _fn(l["bind"], _s)),
             "c_DLocs == " + _fn(cfg["deps"], lambda d: _seq(d)),
             "c_JCores == " + _fn(J, lambda j: str(j["c"])),
             "c_JMem == " + _fn(J, lambda j: str(j["m"])),
             "c_JSto == " + _fn(J, lambda j: _fn(j["s"], str)),
             "c_JUse == " + _fn(J, lambda j: _fn(j["u"], str)),
             "c_JTargets == " + _fn(J, lambda j: _seq(j["targets"], lambda t: "[dep |-> %s, k |-> %d]" % (_s(t["dep"]), t["k"]))),
             "c_JStep == " + _fn(J, lambda j: _s(j["step"])),
             "c_JTag == " + _fn(J, lambda j: str(j["tag"])),
             "View == st",
             "\\* B-edge emission: one JSON line per transition of the complete graph (-workers 1)",
             "EmitNext == Next /\\ PrintT(ToJson([f |-> st, a |-> act', t |-> st']))",
             "===="]
    return "\n".join(lines) + "\n"


CONST_NAMES = ["Jobs", "Locs", "Deps", "Mounts", "Root", "LDep", "LName", "LKind", "LCap", "LSlots", "LWraps", "LBind",
               "DLocs", "JCores", "JMem", "JSto", "JUse", "JTargets", "JStep", "JTag"]


def render_cfg(cfg, *, next_="Next", spec=None, invariants=(), properties=(), view=True, init="Init", constraint=None):
    out = ["CONSTANTS"]
    out += ["  %s <- c_%s" % (n, n) for n in CONST_NAMES]
    out += ["  MaxGen = %d" % cfg["maxgen"], "  MaxDup = %d" % cfg["maxdup"], '  Engine = "%s"' % cfg["engine"],
            "  GateUsage = %s" % ("TRUE" if cfg.get("gate_usage") else "FALSE"),
            "  UsageFaults = %s" % ("TRUE" if cfg.get("usage_faults") else "FALSE")]
    if spec:
        out.append("SPECIFICATION %s" % spec)
    else:
        out += ["INIT %s" % init, "NEXT %s" % next_]
    if view:
        out.append("VIEW View")
    for i in invariants:
        out.append("INVARIANT %s" % i)
    for p in properties:
        out.append("PROPERTY %s" % p)
    if constraint:
        out.append("CONSTRAINT %s" % constraint)
    return "\n".join(out) + "\n"


def render_sim(module, mc_module, depth):
    """Simulation wrapper: the behaviour is accumulated in `hist` and printed once, when it ends."""
    return "\n".join([
        "---- MODULE %s ----" % module, "EXTENDS %s" % mc_module, "VARIABLE hist",
        "SimInit == Init /\\ hist = << [a |-> act, t |-> st] >>",
        "SimNext == \\/ /\\ Len(hist) < %d /\\ hist[1].a.name # \"END\"" % depth,
        "              /\\ Next /\\ hist' = Append(hist, [a |-> act', t |-> st'])",
        "           \\/ /\\ (Len(hist) >= %d \\/ ~AnyEnabled(st)) /\\ hist[1].a.name # \"END\"" % depth,
        "              /\\ PrintT(ToJson(hist))",
        "              /\\ hist' = << [a |-> [name |-> \"END\", j |-> None, s |-> None], t |-> st] >> /\\ UNCHANGED <<st, act>>",
        "===="]) + "\n"


INVARIANTS = ["TypeOK", "NoOverAllocation", "ReservedCoversHeld", "ReleasedExactly", "ReservedExact", "NoLostWakeup"]


# ------------------------------------------------------------------------------------------------
# implementation side: fake deployments around the real DefaultScheduler
# ------------------------------------------------------------------------------------------------
def _leaf(j, m):
    return "%s_%s" % (j, m)


def _job_path(j, m, second=False):
    return posixpath.join(MOUNT_PATH[m], "w" if m == "r" else "", _leaf(j, m) + ("2" if second else "")).replace("//", "/")


def _job_paths(cfg, m):
    ps = []
    for j, J in cfg["jobs"].items():
        ps.append(_job_path(j, m))
        if m in J.get("split", {}):
            ps.append(_job_path(j, m, True))
    return ps


def _bind_path(cfg, outer, m):
    inner_mount = cfg["locs"][outer]["bind"][m]
    return posixpath.join(MOUNT_PATH[inner_mount], "bind_%s_%s" % (outer, m))


def _registered_paths(cfg, loc_id, m):
    """paths known to live under mount m of location loc_id: the job directories and the bind sources of wrappers"""
    ps = set(_job_paths(cfg, m))
    for o, l in cfg["locs"].items():
        if l["wraps"] == loc_id and l["kind"] == "hw":
            for om, im in l["bind"].items():
                if im == m:
                    ps.add(_bind_path(cfg, o, om))
                    for jp in _job_paths(cfg, om):      # the job directories seen through the bind (bind_mount_point rebases them)
                        ps.add(posixpath.join(_bind_path(cfg, o, om), posixpath.relpath(jp, MOUNT_PATH[om])))
    return ps


def _quiet_probe_warnings():
    """the injected probe failures make _free_resources log one WARNING each: keep them out of the check's output"""
    import logging
    lg = logging.getLogger("streamflow")
    if not any(getattr(f, "_vh_probe", False) for f in lg.filters):
        class _F(logging.Filter):
            _vh_probe = True

            def filter(self, record):
                return "Impossible to retrieve the actual storage usage" not in record.getMessage()
        lg.addFilter(_F())


class Sut:
    """The real DefaultScheduler wired to fake connectors described by a configuration."""

    def __init__(self, cfg, gated=True):
        import types
        from streamflow.core.config import BindingConfig
        from streamflow.core.deployment import Connector, DeploymentConfig, Target
        from streamflow.core.scheduling import AvailableLocation, Hardware, HardwareRequirement, Storage
        from streamflow.core.workflow import Job, Status
        from streamflow.deployment.wrapper import ConnectorWrapper
        from streamflow.scheduling.scheduler import DefaultScheduler
        from ..aio import Gates

        self.cfg = cfg
        self.Status = Status
        if cfg.get("usage_faults"):
            _quiet_probe_warnings()
        self.gates = Gates()
        self.gated = gated
        self.holder = None           # (job id, target index) of the task parked in get_available_locations
        self.usage_passed = {}       # job -> False while the usage measurement of its current release is to be gated
        self.usage_parked = {}       # job -> number of run() calls parked
        self.usage_fail = {}         # job -> True: the usage probes of its current release fail (non-zero exit status)
        self.probe_failures = 0      # number of probe commands answered with a failure
        self.max_usage_parked = 0    # max number of jobs whose measurements were parked at the same time
        self.errors = []             # exceptions raised by calls into the scheduler
        self.calls = []              # (kind, job, arg, asyncio task)
        sut = self
        usage = {_leaf(j, m): J["u"][m] for j, J in cfg["jobs"].items() for m in cfg["mounts"]}
        self.name2job = {}

        def make_location(loc_id, service=None):
            l = cfg["locs"][loc_id]
            wraps = make_location(l["wraps"]) if l["wraps"] != "none" else None
            hardware = None
            if l["kind"] == "hw":
                hardware = Hardware(
                    cores=float(l["cap"]["c"]), memory=float(l["cap"]["m"]),
                    storage={MOUNT_PATH[m]: Storage(
                        mount_point=MOUNT_PATH[m], size=float(l["cap"]["s"][m]),
                        paths=set(_registered_paths(cfg, loc_id, m)),
                        bind=(_bind_path(cfg, loc_id, m) if l["bind"][m] != "none" else None))
                        for m in cfg["mounts"]})
            return AvailableLocation(name=l["name"], deployment=l["dep"], hostname="host-" + loc_id, local=False,
                                     service=service, slots=(l["slots"] if l["kind"] == "slots" else None),
                                     stacked=wraps is not None, hardware=hardware, wraps=wraps)

        class _Mixin:
            async def get_available_locations(self, service=None):
                task = asyncio.current_task()
                coro = task.get_coro() if task else None
                if sut.gated and coro is not None and getattr(coro, "__qualname__", "").endswith("_process_target"):
                    fr = getattr(coro, "cr_frame", None)
                    jc = fr.f_locals.get("job_context") if fr is not None else None
                    tg = fr.f_locals.get("target") if fr is not None else None
                    jid = sut.name2job.get(jc.job.name) if jc is not None else None
                    tix = None
                    if jid is not None and tg is not None:
                        tix = next((i + 1 for i, t in enumerate(sut.targets[jid]) if t is tg), None)
                    sut.holder = (jid, tix)
                    await sut.gates.wait("gal")
                    sut.holder = None
                return {cfg["locs"][x]["name"]: make_location(x, service) for x in cfg["deps"][self.deployment_name]}

            async def run(self, location, command, environment=None, workdir=None, stdin=None, stdout=None,
                          stderr=None, capture_output=False, timeout=None, job_name=None):
                # the `find ... | awk` of remotepath._size: answer with the configured usage of the quoted paths
                import re
                total = 0
                # the path list is quoted for the shell (double quotes before /repo f2bd120, shlex.quote since): parse it
                # the way sh would, so that the harness follows either rendering
                import shlex
                text = " ".join(command)
                m = re.search(r"find -L (.*?) -type f", text)
                try:
                    paths = shlex.split(m.group(1)) if m else re.findall(r'"([^"]+)"', text)
                except ValueError:
                    paths = re.findall(r'"([^"]+)"', text)
                leaves = [posixpath.basename(p) for p in paths]
                jid = leaves[0].split("_")[0] if leaves else None
                if sut.gated and cfg.get("gate_usage") and jid in cfg["jobs"] and not sut.usage_passed.get(jid, True):
                    # the measurement of a releasing job is a completion the driver decides (UsageDone)
                    sut.usage_parked[jid] = sut.usage_parked.get(jid, 0) + 1
                    sut.max_usage_parked = max(sut.max_usage_parked, sum(1 for v in sut.usage_parked.values() if v > 0))
                    await sut.gates.wait("use:" + jid)
                    sut.usage_parked[jid] -= 1
                if jid in cfg["jobs"] and sut.usage_fail.get(jid):
                    # fault of the connector: the command ends with a non-zero status (remotepath._check_status raises
                    # WorkflowExecutionException, which _free_resources is expected to survive)
                    sut.probe_failures += 1
                    return ("find: connection lost", 1) if capture_output else None
                for leaf in leaves:
                    total += usage.get(leaf, 0) * 2 ** 20
                return (str(total), 0) if capture_output else None

            async def copy_local_to_remote(self, *a, **k): raise NotImplementedError
            async def copy_remote_to_local(self, *a, **k): raise NotImplementedError
            async def copy_remote_to_remote(self, *a, **k): raise NotImplementedError
            async def deploy(self, external): pass
            async def undeploy(self, external): pass
            async def get_shell(self, *a, **k): raise NotImplementedError
            async def get_stream_reader(self, *a, **k): raise NotImplementedError
            async def get_stream_writer(self, *a, **k): raise NotImplementedError

            @classmethod
            def get_schema(cls): return ""

        class FakeConnector(_Mixin, Connector):
            pass

        class FakeWrapper(_Mixin, ConnectorWrapper):
            pass

        self.connectors = {}

        def connector_for(d):
            if d in self.connectors:
                return self.connectors[d]
            inner = {cfg["locs"][x]["wraps"] for x in cfg["deps"][d]} - {"none"}
            if inner:
                inner_dep = cfg["locs"][sorted(inner)[0]]["dep"]
                c = FakeWrapper(d, "/tmp", connector_for(inner_dep), None, 2 ** 16)
            else:
                c = FakeConnector(d, "/tmp", 2 ** 16)
            self.connectors[d] = c
            return c

        for d in cfg["deps"]:
            connector_for(d)

        class DM:
            def get_connector(self_, name):
                return sut.connectors.get(name)

        self.context = types.SimpleNamespace(deployment_manager=DM(), data_manager=None, scheduler=None)
        self.scheduler = DefaultScheduler(self.context)
        self.context.scheduler = self.scheduler

        class FixedRequirement(HardwareRequirement):
            def __init__(self, jid):
                self.jid = jid

            @classmethod
            async def _load(cls, row, loading_context): raise NotImplementedError
            async def _save_additional_params(self, database): return {}

            def eval(self, job):
                J = cfg["jobs"][self.jid]
                storage = {}
                for m in cfg["mounts"]:
                    parts = J.get("split", {}).get(m)
                    if parts:
                        storage["k_" + m] = Storage("/", float(parts[0]), {_job_path(self.jid, m)})
                        storage["k2_" + m] = Storage("/", float(parts[1]), {_job_path(self.jid, m, True)})
                    else:
                        storage["k_" + m] = Storage("/", float(J["s"][m]), {_job_path(self.jid, m)})
                return Hardware(cores=float(J["c"]), memory=float(J["m"]), storage=storage)

        self.depcfg = {d: DeploymentConfig(name=d, type="fake", config={}, workdir="/w") for d in cfg["deps"]}
        self.jobs, self.targets, self.bindings, self.reqs = {}, {}, {}, {}
        for jid, J in cfg["jobs"].items():
            name = "/%s/%d" % (J["step"], J["tag"])
            self.name2job[name] = jid
            self.jobs[jid] = Job(name=name, workflow_id=0, inputs={}, input_directory="/w/in", output_directory="/w/out",
                                 tmp_directory="/w/tmp")
            self.targets[jid] = [Target(deployment=self.depcfg[t["dep"]], locations=t["k"], workdir="/w") for t in J["targets"]]
            self.bindings[jid] = BindingConfig(targets=list(self.targets[jid]))
            self.reqs[jid] = FixedRequirement(jid)
        self.gen = {j: 0 for j in cfg["jobs"]}
        self.sched_tasks = {}        # (job, gen) -> asyncio task of schedule()

    # ---- environment actions ------------------------------------------------------------------
    async def apply(self, a):
        from ..aio import settle
        name, j, s = a["name"], a.get("j"), a.get("s")
        if name == "Request":
            self.gen[j] += 1
            t = asyncio.create_task(self.scheduler.schedule(self.jobs[j], self.bindings[j], self.reqs[j]))
            self.sched_tasks[(j, self.gen[j])] = t
            self.calls.append(("schedule", j, self.gen[j], t))
        elif name in ("UsageDone", "UsageFail"):
            self.usage_passed[j] = True
            self.usage_fail[j] = name == "UsageFail"
            n = 0
            while self.gates.open("use:" + j):
                n += 1
            if n == 0:
                self.errors.append(("no-parked-measurement", name, None))
        elif name == "Notify":
            self.usage_passed[j] = False
            self.usage_fail[j] = False
            t = asyncio.create_task(self.scheduler.notify_status(self.jobs[j].name, self.Status[s]))
            self.calls.append(("notify", j, s, t))
        elif name == "EvalDone":
            if not self.gates.open("gal"):
                self.errors.append(("no-parked-task", "EvalDone", None))
        else:
            raise ValueError(name)
        await settle(rounds=2)
        # exceptions of calls into the code under test are observations
        for kind, jj, arg, t in self.calls:
            if t.done() and not getattr(t, "_vh_seen", False):
                t._vh_seen = True
                if t.cancelled():
                    self.errors.append((kind, jj, "cancelled"))
                elif t.exception() is not None:
                    self.errors.append((kind, jj, "%s: %s" % (type(t.exception()).__name__, str(t.exception())[:200])))

    # ---- projection -----------------------------------------------------------------------------
    def _hw(self, h):
        out = {"c": h.cores, "m": h.memory, "s": {m: 0.0 for m in self.cfg["mounts"]}}
        inv = {v: k for k, v in MOUNT_PATH.items()}
        for key, disk in h.storage.items():
            m = inv.get(disk.mount_point)
            if m is None:
                out["s"]["?" + disk.mount_point] = disk.size
            else:
                out["s"][m] += disk.size
        return out

    def project(self):
        cfg, sch = self.cfg, self.scheduler
        byname = {}
        for k, l in cfg["locs"].items():
            byname.setdefault((l["dep"], l["name"]), k)
        alloc = {}
        for j, job in self.jobs.items():
            a = sch.job_allocations.get(job.name)
            if a is None:
                alloc[j] = {"status": "NONE", "tgt": 0, "locs": []}
            else:
                tix = next((i + 1 for i, t in enumerate(self.targets[j]) if t is a.target), -1)
                alloc[j] = {"status": a.status.name, "tgt": tix,
                            "locs": [byname.get((l.deployment, l.name), "?%s/%s" % (l.deployment, l.name)) for l in a.locations]}
        res = {}
        for n in {l["name"] for l in cfg["locs"].values()}:
            h = sch.hardware_locations.get(n)
            res[n] = self._hw(h) if h is not None else {"c": 0, "m": 0, "s": {m: 0 for m in cfg["mounts"]}}
        lj = {}
        for k, l in cfg["locs"].items():
            la = sch.location_allocations.get(l["dep"], {}).get(l["name"])
            lj[k] = [self.name2job.get(x, x) for x in la.jobs] if la is not None else []
        returned = {j: [bool((j, g) in self.sched_tasks and self.sched_tasks[(j, g)].done())
                        for g in range(1, cfg["maxgen"] + 1)] for j in self.jobs}
        pend_notify = sorted((jj, arg) for kind, jj, arg, t in self.calls if kind == "notify" and not t.done())
        return {"alloc": alloc, "res": res, "lj": lj, "returned": returned,
                "measuring": sorted(jj for jj, v in self.usage_parked.items() if v > 0),
                "holder": list(self.holder) if self.holder and self.gates.is_parked("gal") else None,
                "pending_notify": [list(x) for x in pend_notify]}


def expected_projection(cfg, st):
    """The same projection computed from a model state (JSON of `st`)."""
    alloc = {j: {"status": a["status"], "tgt": a["tgt"], "locs": list(a["locs"])} for j, a in st["alloc"].items()}
    res = {n: {"c": h["c"], "m": h["m"], "s": dict(h["s"])} for n, h in st["res"].items()}
    lj = {k: list(v) for k, v in st["lj"].items()}
    returned = {j: [bool(x) for x in st["sched"][j]] for j in st["sched"]}
    lock = st["lock"]
    holder = [lock[1], lock[3]] if lock and lock[0] == "t" else None
    measuring = [lock[1]] if lock and lock[0] == "n" else []
    pend = sorted([j, s] for j, s in st["npend"].items() if s != "none")
    return {"alloc": alloc, "res": res, "lj": lj, "returned": returned, "holder": holder, "measuring": measuring,
            "pending_notify": pend}


def diff_projection(got, exp):
    """first differing field (path, got, expected) or None; numbers compared exactly (all values are small integers)"""
    for top in ("alloc", "res", "lj", "returned", "holder", "measuring", "pending_notify"):
        g, e = got[top], exp[top]
        if isinstance(e, dict):
            for k in sorted(set(e) | set(g)):
                if g.get(k) != e.get(k):
                    ge, ee = g.get(k), e.get(k)
                    if isinstance(ee, dict) and isinstance(ge, dict):
                        for kk in sorted(set(ee) | set(ge)):
                            if ge.get(kk) != ee.get(kk):
                                return ("%s.%s.%s" % (top, k, kk), ge.get(kk), ee.get(kk))
                    return ("%s.%s" % (top, k), ge, ee)
        elif g != e:
            return (top, g, e)
    return None


# ------------------------------------------------------------------------------------------------
# independent oracles on the REAL state (they use the configuration, not the model, and not the scheduler's
# own bookkeeping except where the statement itself refers to it)
# ------------------------------------------------------------------------------------------------
def chain(cfg, l):
    out = [l]
    while cfg["locs"][out[-1]]["wraps"] != "none":
        out.append(cfg["locs"][out[-1]]["wraps"])
    return out


def need_chain(cfg, j, l):
    """what job j really needs on every level of the stack of location l: [(level, {c, m, s, u})]"""
    J = cfg["jobs"][j]
    h = {"c": J["c"], "m": J["m"], "s": dict(J["s"]), "u": dict(J["u"])}
    out = []
    for x in chain(cfg, l):
        X = cfg["locs"][x]
        if X["kind"] != "hw":
            h = {"c": h["c"], "m": h["m"], "s": {m: (sum(h["s"].values()) if m == cfg["root"] else 0) for m in cfg["mounts"]},
                 "u": {m: 0 for m in cfg["mounts"]}}
        out.append((x, h))
        nh = {"c": h["c"], "m": h["m"], "s": {m: 0 for m in cfg["mounts"]}, "u": {m: 0 for m in cfg["mounts"]}}
        if X["kind"] == "hw":
            for m, im in X["bind"].items():
                if im != "none":
                    nh["s"][im] += h["s"][m]
                    nh["u"][im] += h["u"][m]
        h = nh
    return out


def held(cfg, proj):
    """per location level: sum of the needs of the fireable/running jobs allocated on it, and the set of those jobs"""
    tot = {x: {"c": 0, "m": 0, "s": {m: 0 for m in cfg["mounts"]}, "jobs": []} for x in cfg["locs"]}
    for j, a in proj["alloc"].items():
        if a["status"] in ("FIREABLE", "RUNNING"):
            for l in a["locs"]:
                if l not in cfg["locs"]:
                    continue
                for x, h in need_chain(cfg, j, l):
                    tot[x]["c"] += h["c"]
                    tot[x]["m"] += h["m"]
                    for m in cfg["mounts"]:
                        tot[x]["s"][m] += h["s"][m]
                    tot[x]["jobs"].append(j)
    return tot


def config_class(cfg):
    f = []
    if any(l["wraps"] != "none" for l in cfg["locs"].values()):
        inner = [l["wraps"] for l in cfg["locs"].values() if l["wraps"] != "none"]
        f.append("shared-wrapped" if len(inner) != len(set(inner)) else "stacked")
    if any(t["k"] > 1 for J in cfg["jobs"].values() for t in J["targets"]):
        f.append("multi-location")
    if cfg["maxgen"] > 1:
        f.append("reschedule")
    return "+".join(f) or "plain"


def oracle_c10(cfg, proj):
    """-> list of (signature, detail)"""
    out = []
    tot = held(cfg, proj)
    for x, X in cfg["locs"].items():
        if X["kind"] == "hw":
            for dim, have, cap in [("cores", tot[x]["c"], X["cap"]["c"]), ("memory", tot[x]["m"], X["cap"]["m"])] + \
                                  [("storage", tot[x]["s"][m], X["cap"]["s"][m]) for m in cfg["mounts"]]:
                if have > cap:
                    out.append(("over-allocation:%s:%s" % (dim, "wrapped-level" if any(l["wraps"] == x for l in cfg["locs"].values()) else "top-level"),
                                {"location": x, "dimension": dim, "held": have, "capacity": cap, "jobs": tot[x]["jobs"]}))
        else:
            n = len(set(tot[x]["jobs"]))
            if n > X["slots"]:
                out.append(("over-allocation:slots:%s" % ("wrapped-level" if any(l["wraps"] == x for l in cfg["locs"].values()) else "top-level"),
                            {"location": x, "jobs": tot[x]["jobs"], "slots": X["slots"]}))
    return out


def oracle_c11(cfg, proj):
    out = []
    if proj["holder"] is not None or proj["pending_notify"]:
        return out
    if any(a["status"] in ("FIREABLE", "RUNNING") for a in proj["alloc"].values()):
        return out
    total_usage = {m: sum(J["u"].values()) for m in cfg["mounts"] for J in [None] if False}
    maxu = sum(sum(J["u"].values()) for J in cfg["jobs"].values()) * cfg["maxgen"]
    for n, h in proj["res"].items():
        for dim in ("c", "m"):
            if h[dim] != 0:
                out.append(("not-released:%s:%s" % ({"c": "cores", "m": "memory"}[dim], config_class(cfg)),
                            {"location_name": n, "reserved": h, "statuses": {j: a["status"] for j, a in proj["alloc"].items()}}))
        for m, v in h["s"].items():
            if v < 0 or v > maxu:
                out.append(("not-released:storage:%s" % config_class(cfg), {"location_name": n, "reserved": h, "max_usage": maxu}))
    return out


def oracle_c12(cfg, proj):
    """at quiescence: a pending request must have no target with enough free capacity on >= k locations"""
    out = []
    if proj["holder"] is not None or proj["pending_notify"]:
        return out
    tot = held(cfg, proj)
    name_of = {x: X["name"] for x, X in cfg["locs"].items()}

    def level_free(j, x, h):
        X = cfg["locs"][x]
        if X["kind"] == "hw":
            if X["cap"]["c"] - tot[x]["c"] < h["c"] or X["cap"]["m"] - tot[x]["m"] < h["m"]:
                return False
            r = proj["res"][name_of[x]]["s"]          # storage: measured residues are legitimate reservations
            return all(X["cap"]["s"][m] - max(r.get(m, 0), tot[x]["s"][m]) >= h["s"][m] for m in cfg["mounts"])
        busy = set(tot[x]["jobs"])
        # ROLLBACK priority rule of the code (a rolled-back job of the same step with a smaller tag keeps its slot)
        for o in set(proj["lj"].get(x, [])):
            a = proj["alloc"].get(o)
            if a and a["status"] == "ROLLBACK" and cfg["jobs"][o]["step"] == cfg["jobs"][j]["step"] and cfg["jobs"][o]["tag"] < cfg["jobs"][j]["tag"]:
                busy.add(o)
        return len(busy) < X["slots"]

    for j, J in cfg["jobs"].items():
        g = sum(1 for r in proj["returned"][j] if r)
        requested = proj.get("_gen", {}).get(j, 0)
        if requested == 0 or proj["returned"][j][requested - 1]:
            continue
        for ti, t in enumerate(J["targets"]):
            free = [l for l in cfg["deps"][t["dep"]] if all(level_free(j, x, h) for x, h in need_chain(cfg, j, l))]
            if len(free) >= t["k"]:
                twice = any(len(v) != len(set(v)) for v in proj["lj"].values())
                out.append(("waiting-while-free:%s%s" % (config_class(cfg), ":job-listed-twice" if twice else ""),
                            {"job": j, "target": ti + 1, "free_locations": free,
                             "statuses": {x: a["status"] for x, a in proj["alloc"].items()}, "lists": proj["lj"], "reserved": proj["res"]}))
                break
    return out


# ------------------------------------------------------------------------------------------------
# replay of behaviours (B-env)
# ------------------------------------------------------------------------------------------------
async def _replay(cfg, steps, prop, report):
    """steps: [(action, expected model state)].  Returns number of steps executed."""
    sut = Sut(cfg)
    try:
        return await _replay_on(sut, cfg, steps, prop, report)
    finally:
        me = asyncio.current_task()
        pend = [t for t in asyncio.all_tasks() if t is not me and not t.done() and getattr(t.get_coro(), "__qualname__", "").startswith("DefaultScheduler")]
        for t in pend:
            t.cancel()
        if pend:
            await asyncio.gather(*pend, return_exceptions=True)


async def _replay_on(sut, cfg, steps, prop, report):
    n = 0
    prefix = []
    diverged = False       # after a conformance difference the behaviour is still driven to its end, oracles only
    classes = []           # input classes met by this behaviour so far (appended to the C11/C12 signatures)
    for a, exp_st in steps:
        before = sut.project()
        if a["name"] == "Notify" and a["s"] == "ROLLBACK" and before["alloc"][a["j"]]["status"] in ("FIREABLE", "RUNNING") \
                and "rollback-while-active" not in classes:
            classes.append("rollback-while-active")        # ROLLBACK sent to a job that still holds its resources
        if a["name"] == "UsageFail" and "usage-probe-failed" not in classes:
            classes.append("usage-probe-failed")           # the usage probe of a release failed
        try:
            await sut.apply(a)
        except Exception as e:  # harness-level failure is not swallowed
            raise
        n += 1
        prefix.append(a)
        got = sut.project()
        got["_gen"] = dict(sut.gen)
        if diverged:
            sut.errors = [e for e in sut.errors if e[0] not in ("no-parked-task", "no-parked-measurement")]
        if sut.errors:
            kind, jj, msg = sut.errors[0]
            report("exception:%s:%s:%s" % (kind, str(msg).split(":")[0], config_class(cfg)),
                   {"config": cfg["id"], "actions": prefix, "error": msg}, "a call into the scheduler raised: %s" % (msg,))
            return n
        # direct oracles
        if prop == "C10":
            for sig, det in oracle_c10(cfg, got):
                report(sig, dict(det, config=cfg["id"], actions=list(prefix)), "active jobs hold more than the capacity of %s" % det.get("location"))
        if prop == "C11":
            for sig, det in oracle_c11(cfg, got):
                if sut.max_usage_parked >= 2:       # releases of several jobs were measuring at the same time
                    sig += ":overlapping-releases"
                sig += "".join(":" + c for c in classes)
                report(sig, dict(det, config=cfg["id"], actions=list(prefix)), "no job is fireable/running but resources stay reserved on %s" % det.get("location_name"))
            if a["name"] == "Notify" and before["holder"] is None and before["alloc"][a["j"]]["status"] == a["s"]:
                for f in ("alloc", "res", "lj"):
                    if before[f] != got[f]:
                        report("duplicate-notification-changes:%s:%s" % (f, a["s"]), {"config": cfg["id"], "actions": list(prefix), "before": before[f], "after": got[f]},
                               "a repeated %s notification changed %s" % (a["s"], f))
        if prop == "C12":
            for sig, det in oracle_c12(cfg, got):
                sig += "".join(":" + c for c in classes)
                report(sig, dict(det, config=cfg["id"], actions=list(prefix)), "request of job %s waits although target %s has free capacity" % (det["job"], det["target"]))
        # conformance with the model state
        if exp_st is not None and not diverged:
            d = diff_projection(got, expected_projection(cfg, exp_st))
            if d is not None:
                field = d[0].split(".")[0]
                report("conformance:%s:%s:%s" % (field, a["name"], config_class(cfg)),
                       {"config": cfg["id"], "actions": list(prefix), "field": d[0], "got": d[1], "model": d[2]},
                       "after %s the real scheduler's %s = %r, the model says %r" % (a, d[0], d[1], d[2]))
                diverged = True
    return n


def replay_paths(ctx, cfg, paths, prop):
    """paths: list of lists of (action, expected state).  One fresh scheduler per path."""
    from ..aio import run

    def report(sig, det, what):
        ctx.violation(sig, det, what)

    async def main():
        tot = 0
        for p in paths:
            tot += await _replay(cfg, p, prop, report)
        return tot
    res, exc = run(main(), timeout=3000)
    if exc is not None:
        raise exc
    return res


def cover_paths(transitions, max_steps=None):
    """transitions: [{"f": st, "a": act, "t": st}] of the complete graph -> paths from the initial state that
    together take every transition at least once (shortest prefix + greedy extension over untaken edges)."""
    key = lambda st: json.dumps(st, sort_keys=True)
    out_edges, states = {}, {}
    init = None
    edges = []
    for tr in transitions:
        fk, tk = key(tr["f"]), key(tr["t"])
        states.setdefault(fk, tr["f"])
        states.setdefault(tk, tr["t"])
        e = (fk, json.dumps(tr["a"], sort_keys=True), tk)
        out_edges.setdefault(fk, [])
        if e not in out_edges[fk]:
            out_edges[fk].append(e)
            edges.append(e)
        if init is None and all(g == 0 for g in tr["f"]["gen"].values()):
            init = fk
    assert init is not None
    parent = {init: None}
    order = [init]
    i = 0
    while i < len(order):
        u = order[i]
        i += 1
        for e in out_edges.get(u, []):
            if e[2] not in parent:
                parent[e[2]] = e
                order.append(e[2])
    taken = set()
    paths = []
    steps = 0
    for u in order:
        for e in out_edges.get(u, []):
            if e in taken:
                continue
            pre = []
            x = u
            while parent[x] is not None:
                pre.append(parent[x])
                x = parent[x][0]
            pre.reverse()
            path = pre + [e]
            taken.add(e)
            cur = e[2]
            while True:
                nxt = next((f for f in out_edges.get(cur, []) if f not in taken), None)
                if nxt is None:
                    break
                taken.add(nxt)
                path.append(nxt)
                cur = nxt[2]
            paths.append([(json.loads(a), states[tk]) for (_, a, tk) in path])
            steps += len(path)
            if max_steps is not None and steps >= max_steps:
                return paths, len(taken), len(edges)
    return paths, len(taken), len(edges)


# ------------------------------------------------------------------------------------------------
# the shared pipeline of C10 / C11 / C12
# ------------------------------------------------------------------------------------------------
PROP_INVARIANTS = {"C10": ["TypeOK", "NoOverAllocation", "ReservedCoversHeld"],
                   "C11": ["TypeOK", "ReleasedExactly", "ReservedExact"],
                   "C12": ["TypeOK", "NoLostWakeup"]}
ACTIONS = ["Request", "Notify", "EvalDone"]


def _cex_steps(trace):
    steps = []
    for s in trace[1:]:
        steps.append((s["state"]["act"], s["state"]["st"]))
    return steps


def run_property(ctx, prop):
    C = CONFIGS()
    replayed = ctx.pick(["basic", "stacked", "replicas", "rollback", "slotstack", "retry", "cancel", "aliased", "overlap", "rbactive", "rbstacked", "probefail", "probestacked"],
                        ["basic", "storage", "stacked", "replicas", "rollback", "slotstack", "retry", "cancel", "aliased", "overlap", "multi", "hostile",
                         "rbactive", "rbstacked", "probefail", "probefail3", "probestacked"])
    mc_only = ctx.pick(["hostile"], [])
    invs = PROP_INVARIANTS[prop]
    props = ["DupIsNoop"] if prop == "C11" else []
    sims = ctx.pick([("big", 60, 40)], [("big", 600, 50)])
    live = ctx.pick(["basic", "stacked", "probefail"], ["basic", "storage", "stacked", "multi", "retry", "probefail", "probestacked"]) if prop == "C12" else []
    # all TLC runs are independent: launch them concurrently (JVM start-up dominates on a busy machine)
    from concurrent.futures import ThreadPoolExecutor
    jobs = {}
    for name in replayed + mc_only:
        cfg = C[name]
        mod = "MC_Scheduler_%s" % name
        files = {mod + ".tla": render_mc(cfg, mod),
                 mod + ".cfg": render_cfg(cfg, invariants=invs, properties=props),
                 mod + "_emit.cfg": render_cfg(cfg, next_="EmitNext", invariants=invs, properties=props)}
        wd = ctx.spec_workdir("Scheduler", files)
        if name in mc_only:
            jobs[("mc", name)] = dict(module=mod, cfg=mod + ".cfg", workdir=wd, coverage=True, timeout=2400, continue_=True)
        else:
            jobs[("emit", name)] = dict(module=mod, cfg=mod + "_emit.cfg", workdir=wd, workers=1, timeout=2400, continue_=True)
    for name, num, depth in sims:
        cfg = C[name]
        mod = "MC_Scheduler_%s" % name
        sim = "Sim_Scheduler_%s" % name
        files = {mod + ".tla": render_mc(cfg, mod), sim + ".tla": render_sim(sim, mod, depth),
                 sim + ".cfg": render_cfg(cfg, init="SimInit", next_="SimNext", view=False)}
        jobs[("sim", name)] = dict(module=sim, cfg=sim + ".cfg", workdir=ctx.spec_workdir("Scheduler", files), workers=1, count=False,
                                   timeout=2400, simulate={"num": num, "depth": depth + 3})
    for name in live:
        # liveness instances: no re-schedule, and no measured storage residue (a residue legitimately stays reserved for
        # ever -- C11 -- so "fits the empty system" would no longer imply "fits once the others have finished")
        cfg = json.loads(json.dumps(C[name]))
        cfg["maxgen"] = 1
        for J in cfg["jobs"].values():
            J["u"] = {m: 0 for m in J["u"]}
        mod = "MC_Scheduler_%s" % name
        files = {mod + ".tla": render_mc(cfg, mod),
                 mod + "_live.cfg": render_cfg(cfg, spec="FairSpec", properties=["EventuallyScheduled"], view=False)}
        jobs[("live", name)] = dict(module=mod, cfg=mod + "_live.cfg", workdir=ctx.spec_workdir("Scheduler", files), timeout=2400)
    with ThreadPoolExecutor(max_workers=6) as ex:
        futs = {k: ex.submit(lambda kw: ctx.tlc("Scheduler", kw.pop("module"), kw.pop("cfg"), **kw), dict(v)) for k, v in jobs.items()}
        results = {k: f.result() for k, f in futs.items()}
    for name in replayed + mc_only:
        cfg = C[name]
        if name in mc_only:
            r = results[("mc", name)]
            ctx.require(r.error in (None, "invariant", "property"), "TLC failed on %s: %s" % (name, r.stdout[-800:]))
            ctx.require_coverage(r, ACTIONS)
            ctx.require(r.ok, "the model violates %s on configuration %s, which is not replayed in this tier" % (r.violated, name))
            ctx.count("model_states:%s" % name, r.distinct)
            continue
        # one run: complete state graph, invariants on every state, one JSON line per transition
        r = results[("emit", name)]
        ctx.require(r.error in (None, "invariant", "property"), "TLC failed on %s: %s" % (name, r.stdout[-800:]))
        ctx.count("model_states:%s" % name, r.distinct)
        if not r.ok:
            # a counterexample in the model alone is never a verdict: every transition of the graph is replayed on the
            # real scheduler below, where the independent oracle decides
            ctx.count("model_invariant_violated:%s:%s" % (name, ",".join(sorted(set(r.violated)))))
        trs = [x for x in r.printed_json() if isinstance(x, dict) and "a" in x and "f" in x]
        ctx.require(len(trs) >= r.generated - 1 and len(trs) > 50, "emission incomplete on %s: %d lines, %d transitions" % (name, len(trs), r.generated))
        for an in ACTIONS + (["UsageDone"] if cfg.get("gate_usage") else []) + (["UsageFail"] if cfg.get("usage_faults") else []):
            ctx.require(any(t["a"]["name"] == an for t in trs), "vacuous model run on %s: action %s never taken" % (name, an))
        # input classes (vacuity guards): ROLLBACK sent to a job that still holds its resources; failed usage probes
        rb = sum(1 for t in trs if t["a"]["name"] == "Notify" and t["a"]["s"] == "ROLLBACK"
                 and t["f"]["alloc"][t["a"]["j"]]["status"] in ("FIREABLE", "RUNNING"))
        if cfg["engine"] == "contract" and cfg["maxgen"] > 1:
            ctx.require(rb > 0, "vacuous model run on %s: no ROLLBACK reaches a fireable/running job" % name)
        if rb:
            ctx.count("rollback_while_active_in_model:%s" % name, rb)
        if cfg.get("usage_faults"):
            ctx.count("usage_probe_failures_in_model:%s" % name, sum(1 for t in trs if t["a"]["name"] == "UsageFail"))
        ctx.count("waits_in_model:%s" % name, sum(1 for t in trs if len(t["t"]["condq"]) > len(t["f"]["condq"])))
        ctx.count("wakeups_in_model:%s" % name, sum(1 for t in trs if t["f"]["condq"] and not t["t"]["condq"]))
        paths, taken, total = cover_paths(trs)
        ctx.require(taken == total, "path cover incomplete")
        n = replay_paths(ctx, cfg, paths, prop)
        ctx.impl_trace(len(paths))
        ctx.count("transitions_covered:%s" % name, total)
        ctx.count("replayed_steps", n)
        ctx.count("replayed_paths", len(paths))
        for p in paths:
            ctx.case((name, json.dumps([a for a, _ in p], sort_keys=True)), nontrivial=len(p) > 2)
        if name == "basic":
            ctx.sample({"config": name, "behaviour": [a for a, _ in max(paths, key=len)]})
    if prop == "C12":
        # liveness under fairness, no state constraint (the instances are finite by construction)
        for name in live:
            r = results[("live", name)]
            ctx.count("liveness_states:%s" % name, r.distinct)
            if r.error == "temporal":
                steps = _cex_steps(r.trace or [])
                ctx.extra.setdefault("liveness_counterexamples", []).append({"config": name, "actions": [a for a, _ in steps]})
                ctx.require(False, "liveness EventuallyScheduled fails in the model on %s; counterexample (to be replayed): %s" % (name, [a for a, _ in steps]))
            ctx.require(r.ok, "liveness run failed on %s: %s" % (name, r.stdout[-800:]))
    ctx.exhaustive = True
    # random long behaviours of larger instances (TLC simulation), replayed the same way
    for name, num, depth in sims:
        cfg = C[name]
        g = results[("sim", name)]
        hs = [x for x in g.printed_json() if isinstance(x, list) and x and isinstance(x[0], dict) and "t" in x[0]]
        ctx.require(len(hs) >= num // 2, "simulation produced %d behaviours (expected %d): %s" % (len(hs), num, g.stdout[-600:]))
        paths = [[(h["a"], h["t"]) for h in hist[1:]] for hist in hs]
        n = replay_paths(ctx, cfg, paths, prop)
        ctx.impl_trace(len(paths))
        ctx.count("simulated_behaviours:%s" % name, len(paths))
        ctx.count("replayed_steps", n)
        for p in paths:
            ctx.case((name, json.dumps([a for a, _ in p], sort_keys=True)), nontrivial=len(p) > 2)
    ctx.assumptions += [
        "locations are fake (AvailableLocation objects served by harness connectors); storage usage is answered by the fake connector's run() to the real `find|awk` command of remotepath._size",
        "measured usage of a job never exceeds its declared storage requirement",
        "all locations of one deployment are of one kind (hardware or slots); stacked targets ask for one location",
        "retry_interval (timer wake-ups) is not modelled; binding filters are empty (C13)",
        "environment events are delivered at suspension points of the scheduler: between them the event loop runs to quiescence",
    ]


def replay_violation(ctx, prop, data):
    """--replay: re-drive the recorded environment actions against the real scheduler; the oracles decide again."""
    d = data["detail"]
    cfg = CONFIGS()[d["config"]]
    replay_paths(ctx, cfg, [[(a, None) for a in d["actions"]]], prop)
    print("replayed %d actions on configuration %s: %s" % (len(d["actions"]), d["config"],
          "violation reproduced" if (ctx.violations or ctx.known_hits) else "no violation"))
