import sys
from .core import main

if __name__ == "__main__":
    sys.exit(main())
