"""Trace validation (code -> spec): validate batches of recorded implementation traces with TLC.

Conventions of a Trace_<Mod> module (see specs/Common/TraceUtil.tla):
  VARIABLES tid, l;  INVARIANT that calls TUAcceptMsg(tid) when the trace is consumed (and the final
  condition holds);  CONSTRAINT that calls TUDiagMsg(tid, l).
`validate` returns one verdict per trace:
  {"ok": True}                                            accepted (all module invariants held on every state)
  {"ok": False, "reason": "invariant:<Name>", "state": {...}}   an invariant of the module is false on the real trace
  {"ok": False, "reason": "rejected", "prefix": k, "event": e}  no behaviour of the spec explains event k+1
"""
from __future__ import annotations

import json
import os
import re

from .tlc import MachineryError


def _run(ctx, spec, module, cfg, traces, diag, files, timeout, dfs, workers, extra_env):
    wd = ctx.spec_workdir(spec, files)
    tf = os.path.join(wd, "traces.json")
    with open(tf, "w") as f:
        json.dump(traces, f)
    env = {"TRACE_FILE": tf, "DIAG": "1" if diag else "0"}
    env.update(extra_env or {})
    return ctx.tlc(spec, module, cfg, workdir=wd, env=env, workers=workers, dfs_queue=dfs, timeout=timeout, count=False)


def validate(ctx, spec: str, module: str, cfg: str, traces: list, *, files: dict | None = None,
             timeout: float = 900, dfs: bool = False, workers="auto", extra_env: dict | None = None,
             max_rounds: int = 25, diagnose: bool = True, max_diagnose: int = 25) -> list:
    n = len(traces)

    def events(t):
        return t["events"] if isinstance(t, dict) else t
    verdicts = [None] * n
    if n == 0:
        return verdicts
    live = list(range(n))
    rounds = 0
    states = 0
    while live:
        rounds += 1
        batch = [traces[i] for i in live]
        r = _run(ctx, spec, module, cfg, batch, False, files, timeout, dfs, workers, extra_env)
        states += r.distinct
        accepted = set()
        for s in r.printed():
            if isinstance(s, str) and s.startswith("ACCEPT "):
                accepted.add(int(s.split()[1]) - 1)
        if r.error in ("invariant", "property"):
            if not r.trace:
                raise MachineryError("trace validation: invariant %s violated but no counterexample" % r.violated)
            tid = r.trace[-1]["state"].get("tid")
            if tid is None:
                raise MachineryError("trace validation: counterexample without tid")
            gi = live[tid - 1]
            st = {k: v for k, v in r.trace[-1]["state"].items()}
            verdicts[gi] = {"ok": False, "reason": "invariant:%s" % (r.violated[0] if r.violated else "?"),
                            "prefix": st.get("l", 0) - 1, "state": st,
                            "event": events(traces[gi])[st.get("l", 1) - 2] if st.get("l", 1) >= 2 and st.get("l", 1) - 2 < len(events(traces[gi])) else None}
            live.remove(gi)
            if rounds >= max_rounds:
                raise MachineryError("trace validation: too many invariant-violating traces (%d rounds)" % rounds)
            continue
        if r.error is not None:
            raise MachineryError("trace validation failed (%s): %s" % (r.error, r.stdout[-1500:]))
        for k, gi in enumerate(live):
            if k in accepted:
                verdicts[gi] = {"ok": True}
        rejected = [gi for k, gi in enumerate(live) if k not in accepted]
        live = []
        for nd, gi in enumerate(rejected):
            v = {"ok": False, "reason": "rejected", "prefix": None, "event": None}
            # each diagnosis is one TLC run of its own: beyond `max_diagnose` rejected traces the verdict stands without
            # the longest matched prefix
            if diagnose and nd < max_diagnose:
                d = _run(ctx, spec, module, cfg, [traces[gi]], True, files, timeout, dfs, 1, extra_env)
                mx = 0
                for s in d.printed():
                    if isinstance(s, str) and s.startswith("L "):
                        mx = max(mx, int(s.split()[2]))
                if d.error in ("invariant", "property"):
                    v["reason"] = "invariant:%s" % (d.violated[0] if d.violated else "?")
                v["prefix"] = max(0, mx - 1)
                v["event"] = events(traces[gi])[mx - 1] if 0 < mx <= len(events(traces[gi])) else "<end of trace: final condition not met>"
            verdicts[gi] = v
    ctx.states += states
    ctx.count("trace_validation_states", states)
    ctx.count("traces_validated", n)
    ctx.impl_trace(n)
    return verdicts
