"""Check context: tiers, seeds, scratch space, TLC bookkeeping, verdicts, evidence, known findings."""
from __future__ import annotations

import fnmatch
import hashlib
import json
import os
import random
import shutil
import sys
import tempfile
import time
import traceback

from . import tlc as _tlc
from .tlc import MachineryError

HOME = _tlc.HOME
REPO = os.environ.get("VERIF_REPO", "/repo")
KNOWN = os.path.join(HOME, "known_findings.json")

LEVELS = ("exploration", "fault_enumeration", "model_checking", "proof", "translation_validation", "other")


def _jsonable(x, depth=0):
    if depth > 12:
        return repr(x)
    if isinstance(x, (str, int, float, bool)) or x is None:
        return x
    if isinstance(x, dict):
        return {str(k): _jsonable(v, depth + 1) for k, v in x.items()}
    if isinstance(x, (list, tuple, set, frozenset)):
        return [_jsonable(v, depth + 1) for v in x]
    if isinstance(x, bytes):
        return x.decode("latin-1")
    return repr(x)


class Ctx:
    def __init__(self, prop: str, tier: str, seed: int, level: str = "model_checking", replaying: bool = False):
        self.prop, self.tier, self.seed, self.level = prop, tier, seed, level
        self.replaying = replaying
        self.t0 = time.time()
        self.tmp = tempfile.mkdtemp(prefix="vh_%s_" % prop, dir=os.environ.get("VERIF_SCRATCH") or None)
        self.states = 0
        self.transitions = 0
        self.tlc_runs = []          # [{module,cfg,generated,distinct,depth,wall_s,...}]
        self.impl_traces = 0
        self.evaluations = 0
        self.counters = {}
        self.distinct = set()
        self.samples = []
        self.violations = []        # unlisted
        self.known_hits = {}        # finding id -> count
        self.assumptions = []
        self.extra = {}
        self.rule = ""
        self.exhaustive = None
        self.programs = 0
        self.disagreements_checked = 0
        self._known = self._load_known()
        self._printed_known = set()

    # -------- parameters ------------------------------------------------------------------
    @property
    def quick(self) -> bool:
        return self.tier == "quick"

    def pick(self, quick, thorough):
        return quick if self.quick else thorough

    def rng(self, name: str = "") -> random.Random:
        return random.Random("%s/%s/%s" % (self.prop, self.seed, name))

    def scratch(self, name: str) -> str:
        d = os.path.join(self.tmp, name)
        os.makedirs(d, exist_ok=True)
        return d

    # -------- TLC --------------------------------------------------------------------------
    def spec_workdir(self, spec: str, files: dict | None = None) -> str:
        """Copy specs/<spec> to scratch (TLC never writes under /verif/specs); add generated files."""
        dst = os.path.join(self.tmp, "spec_%s_%d" % (spec, len(os.listdir(self.tmp))))
        shutil.copytree(os.path.join(_tlc.SPECS, spec), dst)
        for name, text in (files or {}).items():
            with open(os.path.join(dst, name), "w") as f:
                f.write(text)
        return dst

    def tlc(self, spec: str, module: str, cfg: str | None = None, *, files: dict | None = None,
            count: bool = True, expect_ok: bool = False, workdir: str | None = None, **kw) -> _tlc.TLCResult:
        wd = workdir or self.spec_workdir(spec, files)
        if workdir and files:
            for name, text in files.items():
                with open(os.path.join(wd, name), "w") as f:
                    f.write(text)
        kw.setdefault("scratch", os.path.join(self.tmp, "_tlc"))
        if "seed" not in kw and kw.get("simulate") is not None:
            kw["seed"] = self.seed
        r = _tlc.run_tlc(wd, module, cfg, **kw)
        if count:
            self.states += r.distinct
            self.transitions += r.generated
        self.tlc_runs.append({"spec": spec, "module": module, "cfg": cfg or module + ".cfg",
                              "states": r.distinct, "transitions": r.generated, "depth": r.depth,
                              "wall_s": round(r.wall_s, 2), "error": r.error, "violated": r.violated,
                              "mode": "simulate" if kw.get("simulate") else "exhaustive",
                              "complete": (r.queue == 0 and not r.timed_out and not kw.get("simulate"))})
        if expect_ok and not r.ok:
            raise MachineryError("TLC run %s/%s was expected to pass: %s %s\n%s" % (
                spec, cfg, r.error, r.violated, _tlc._tail(r.stdout, 60)))
        return r

    def require_coverage(self, r: _tlc.TLCResult, actions: list):
        """Vacuity guard: every named action must have been taken at least once."""
        missing = [a for a in actions if r.coverage.get(a, [0, 0])[1] == 0]
        if missing:
            raise MachineryError("vacuous model run: actions never taken: %s" % missing)

    # -------- bookkeeping ------------------------------------------------------------------
    def count(self, key: str, n: int = 1):
        self.counters[key] = self.counters.get(key, 0) + n

    def case(self, key=None, nontrivial: bool = True):
        """One implementation-level evaluation; `key` identifies distinct non-trivial cases."""
        self.evaluations += 1
        if nontrivial and key is not None:
            self.distinct.add(key if isinstance(key, (str, int, tuple)) else json.dumps(_jsonable(key), sort_keys=True))

    def impl_trace(self, n: int = 1):
        self.impl_traces += n

    def sample(self, obj, limit: int = 6):
        if len(self.samples) < limit:
            self.samples.append(_jsonable(obj))

    def require(self, cond, msg: str):
        if not cond:
            raise MachineryError(msg)

    # -------- known findings / violations --------------------------------------------------
    def _load_known(self):
        out = []
        paths = [KNOWN, os.path.join(HOME, "known_findings.d", "%s.json" % self.prop)]
        for p in paths:
            if os.path.exists(p):
                with open(p) as f:
                    j = json.load(f)
                out += [k for k in j.get("findings", []) if k.get("property") == self.prop]
        return out

    def is_known(self, signature: str) -> bool:
        """True when `signature` is listed as a known finding (the caller may skip costly confirmation runs)."""
        return any(fnmatch.fnmatchcase(signature, p) for k in self._known for p in k.get("signatures", []))

    def violation(self, signature: str, detail: dict | None = None, what: str = ""):
        """Report a property violation observed on the implementation.

        `signature` names the specific failing input / call site / history class; it is what
        known_findings.json lists.  Unlisted signatures are violations (exit 1)."""
        detail = _jsonable(detail or {})
        for k in self._known:
            pats = k.get("signatures", [])
            if any(fnmatch.fnmatchcase(signature, p) for p in pats):
                self.known_hits[k["id"]] = self.known_hits.get(k["id"], 0) + 1
                if k["id"] not in self._printed_known:
                    self._printed_known.add(k["id"])
                    print("KNOWN-FINDING: property=%s %s" % (self.prop, k.get("what", k["id"])), flush=True)
                return False
        h = hashlib.sha1((signature + json.dumps(detail, sort_keys=True)).encode()).hexdigest()[:12]
        same_sig = [v for v in self.violations if v["signature"] == signature]
        if any(v["hash"] == h for v in same_sig) or len(same_sig) >= 5:
            # same case again, or already five examples of this signature: count, do not repeat
            self.count("violations_suppressed")
            return True
        d = os.path.join(HOME, "replays", self.prop)
        os.makedirs(d, exist_ok=True)
        path = os.path.join(d, "%s.json" % h)
        with open(path, "w") as f:
            json.dump({"property": self.prop, "signature": signature, "what": what, "seed": self.seed,
                       "tier": self.tier, "detail": detail}, f, indent=1, sort_keys=True)
        self.violations.append({"signature": signature, "what": what, "replay": path, "hash": h})
        print("VIOLATION property=%s replay=%s" % (self.prop, path), flush=True)
        print("  signature: %s" % signature, flush=True)
        if what:
            print("  what: %s" % what, flush=True)
        return True

    # -------- evidence ---------------------------------------------------------------------
    def write_evidence(self):
        cov = {
            "states": self.states, "transitions": self.transitions,
            "traces_validated_against_impl": self.impl_traces,
            "evaluations": self.evaluations, "distinct_nontrivial": len(self.distinct),
            "rule": self.rule, "samples": self.samples or ["(no sample recorded)"],
            "tlc_runs": self.tlc_runs, "counters": self.counters,
            "known_findings_hit": self.known_hits,
        }
        if self.exhaustive is not None:
            cov["exhaustive"] = bool(self.exhaustive)
        if self.level == "translation_validation":
            cov["programs"] = self.programs or self.evaluations
            cov["disagreements_checked"] = self.disagreements_checked
        if self.level == "other":
            cov["explanation"] = self.rule or "see DESIGN.md"
        cov.update(self.extra)
        ev = {"property_id": self.prop, "tier": self.tier, "seed": self.seed, "level": self.level,
              "coverage": cov, "assumptions": self.assumptions, "wall_s": round(time.time() - self.t0, 2),
              "violations": len(self.violations)}
        # X.. ids are extension modules outside the given property list: their evidence is kept apart
        d = os.path.join(HOME, "evidence_extra" if self.prop.startswith("X") else "evidence")
        if os.path.realpath(REPO) != "/repo":
            # a run against another tree (VERIF_REPO=<scratch worktree>) says nothing about /repo: keep it apart
            d = os.path.join(HOME, "scratch", "evidence_other_tree")
        os.makedirs(d, exist_ok=True)
        tmp = os.path.join(d, ".%s.json.tmp" % self.prop)
        with open(tmp, "w") as f:
            json.dump(ev, f, indent=1, sort_keys=True)
        os.replace(tmp, os.path.join(d, "%s.json" % self.prop))
        return ev

    def cleanup(self):
        shutil.rmtree(self.tmp, ignore_errors=True)


def main(argv=None):
    import argparse
    import importlib
    ap = argparse.ArgumentParser(prog="check")
    ap.add_argument("prop")
    ap.add_argument("--tier", default=os.environ.get("VERIF_TIER", "quick"), choices=["quick", "thorough"])
    ap.add_argument("--replay")
    ap.add_argument("--selftest", action="store_true")
    ap.add_argument("--keep", action="store_true", help="keep scratch directory")
    a = ap.parse_args(argv)
    seed = int(os.environ.get("VERIF_SEED", "0") or 0)
    try:
        mod = importlib.import_module("vh.props.%s" % a.prop)
    except ModuleNotFoundError as e:
        print("no driver for %s: %s" % (a.prop, e), file=sys.stderr)
        return 2
    ctx = Ctx(a.prop, a.tier, seed, level=getattr(mod, "LEVEL", "model_checking"), replaying=bool(a.replay))
    code = 0
    try:
        if a.replay:
            with open(a.replay) as f:
                data = json.load(f)
            if not hasattr(mod, "replay"):
                print("driver %s has no replay()" % a.prop, file=sys.stderr)
                return 2
            mod.replay(ctx, data)
        elif a.selftest:
            mod.selftest(ctx)
        else:
            mod.run(ctx)
        if not a.replay:
            ev = ctx.write_evidence()
            print("%s tier=%s seed=%d: states=%d transitions=%d impl_traces=%d evaluations=%d distinct=%d "
                  "violations=%d known=%s wall=%.1fs" % (a.prop, a.tier, seed, ctx.states, ctx.transitions,
                                                         ctx.impl_traces, ctx.evaluations, len(ctx.distinct),
                                                         len(ctx.violations), dict(ctx.known_hits), ev["wall_s"]))
        code = 1 if ctx.violations else 0
    except MachineryError as e:
        print("MACHINERY-ERROR %s: %s" % (a.prop, e), file=sys.stderr)
        code = 1 if ctx.violations else 2
    except Exception:
        traceback.print_exc()
        print("MACHINERY-ERROR %s: unexpected exception in the harness" % a.prop, file=sys.stderr)
        code = 1 if ctx.violations else 2
    finally:
        if a.keep:
            print("scratch kept:", ctx.tmp, file=sys.stderr)
        else:
            ctx.cleanup()
    return code
