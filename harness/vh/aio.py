"""asyncio helpers for deterministic drivers: run-to-quiescence, gates, virtual time.

Rules (DESIGN.md 3.4): the harness never reorders asyncio's ready queue.  Schedules are explored only
at genuinely nondeterministic points (completion of I/O: database, connector calls, job commands,
timers) through *gates* (the driver decides when a parked completion resolves) or *seeded delays*.
"""
from __future__ import annotations

import asyncio
import heapq
import os
import random


def load_factor(cap: float = 8.0) -> float:
    """How much slower than an idle machine we must expect to be: 1-minute load per core, at least 1.
    Real-time watchdogs are multiplied by it so that a loaded machine (other checks running at the same time)
    never turns slowness into a verdict or a machinery error.  Virtual-time runs are not affected."""
    try:
        return min(cap, max(1.0, os.getloadavg()[0] / (os.cpu_count() or 1)))
    except OSError:
        return 1.0


def scaled(t: float | None) -> float | None:
    return None if t is None else t * load_factor()


async def settle(rounds: int = 3, real_io: float = 0.0, max_iter: int = 100000):
    """Let every runnable task run until the loop has nothing ready (`rounds` consecutive empty
    looks).  With real_io > 0 also sleeps that many seconds between looks so that thread-pool work
    (aiosqlite) or subprocesses can complete."""
    loop = asyncio.get_running_loop()
    idle = 0
    it = 0
    while idle < rounds and it < max_iter:
        it += 1
        await asyncio.sleep(0)
        ready = len(getattr(loop, "_ready", ()))
        if ready == 0:
            idle += 1
            if real_io:
                await asyncio.sleep(real_io)
                if len(getattr(loop, "_ready", ())) > 0:
                    idle = 0
        else:
            idle = 0


class Gates:
    """Named parking places.  Code under test calls `await gates.wait(name)`; the driver calls
    `gates.open(name)` (or `gates.fail(name, exc)`) to complete it, in the order it wants."""

    def __init__(self):
        self.parked = {}      # name -> list of futures (FIFO)
        self.log = []

    async def wait(self, name):
        fut = asyncio.get_running_loop().create_future()
        self.parked.setdefault(name, []).append(fut)
        self.log.append(("park", name))
        return await fut

    def pending(self):
        return sorted(n for n, fs in self.parked.items() if any(not f.done() for f in fs))

    def is_parked(self, name):
        return any(not f.done() for f in self.parked.get(name, []))

    def open(self, name, result=None):
        for f in self.parked.get(name, []):
            if not f.done():
                f.set_result(result)
                self.log.append(("open", name))
                return True
        return False

    def fail(self, name, exc):
        for f in self.parked.get(name, []):
            if not f.done():
                f.set_exception(exc)
                self.log.append(("fail", name))
                return True
        return False


def run(coro, timeout: float | None = 60.0, debug: bool = False):
    """Run a coroutine on a fresh loop with a watchdog.  Returns (result, None) or (None, exception);
    a watchdog expiry is reported as TimeoutError."""
    timeout = scaled(timeout)

    async def main():
        if timeout is None:
            return await coro
        return await asyncio.wait_for(coro, timeout)
    loop = asyncio.new_event_loop()
    try:
        asyncio.set_event_loop(loop)
        try:
            return loop.run_until_complete(main()), None
        except (asyncio.TimeoutError, TimeoutError) as e:
            return None, TimeoutError("watchdog %ss" % timeout)
        except BaseException as e:  # noqa
            if isinstance(e, (KeyboardInterrupt, SystemExit)):
                raise
            return None, e
    finally:
        try:
            pend = [t for t in asyncio.all_tasks(loop) if not t.done()]
            for t in pend:
                t.cancel()
            if pend:
                loop.run_until_complete(asyncio.gather(*pend, return_exceptions=True))
            loop.run_until_complete(loop.shutdown_asyncgens())
        except Exception:
            pass
        asyncio.set_event_loop(None)
        loop.close()


class VirtualTimeLoop(asyncio.SelectorEventLoop):
    """Event loop whose clock only advances when nothing is ready: timers (asyncio.sleep, wait_for,
    call_later) fire in order without real waiting.  `advance_hook` (optional) is called with the new
    time whenever the clock jumps, so that drivers can make environment events happen 'at' a tick."""

    def __init__(self):
        super().__init__()
        self._vt = 0.0
        self.advance_hook = None

    def time(self):
        return self._vt

    def _run_once(self):
        if not self._ready and self._scheduled:
            # jump to the next timer
            when = self._scheduled[0]._when
            if when > self._vt:
                self._vt = when
                if self.advance_hook is not None:
                    self.advance_hook(self._vt)
        super()._run_once()


def run_virtual(coro, timeout_virtual: float = 1e6):
    """Run on a VirtualTimeLoop.  NOTE: only for code that does no real I/O wait (threads/subprocesses
    complete in real time and would be starved of it)."""
    loop = VirtualTimeLoop()
    try:
        asyncio.set_event_loop(loop)
        async def main():
            return await asyncio.wait_for(coro, timeout_virtual)
        try:
            return loop.run_until_complete(main()), None
        except BaseException as e:  # noqa
            if isinstance(e, (KeyboardInterrupt, SystemExit)):
                raise
            return None, e
    finally:
        try:
            pend = [t for t in asyncio.all_tasks(loop) if not t.done()]
            for t in pend:
                t.cancel()
            if pend:
                loop.run_until_complete(asyncio.gather(*pend, return_exceptions=True))
        except Exception:
            pass
        asyncio.set_event_loop(None)
        loop.close()


class SeededDelays:
    """After a genuinely nondeterministic completion, yield k in 0..K extra loop iterations."""

    def __init__(self, seed, K: int = 3):
        self.rng = random.Random(seed)
        self.K = K

    async def after(self):
        for _ in range(self.rng.randint(0, self.K)):
            await asyncio.sleep(0)

    def wrap(self, obj, names):
        for name in names:
            f = getattr(obj, name)
            setattr(obj, name, self._mk(f))

    def _mk(self, f):
        delays = self

        async def w(*a, **k):
            r = await f(*a, **k)
            await delays.after()
            return r
        w.__wrapped__ = f
        return w
