"""Running TLC / SANY and reading back what they produced.

Everything TLC writes (metadir, unpacked standard modules, trace files) goes to a private
scratch directory that the caller owns and deletes; nothing is written under /verif/specs.
"""
from __future__ import annotations

import json
import os
import re
import shutil
import subprocess
import time
from dataclasses import dataclass, field

JAR = "/opt/veriftools/tla/tla2tools.jar"
DEPS = "/opt/veriftools/tla/CommunityModules-deps.jar"
HOME = os.environ.get("VERIF_HOME", os.path.dirname(os.path.dirname(os.path.dirname(os.path.abspath(__file__)))))
SPECS = os.path.join(HOME, "specs")


class MachineryError(Exception):
    """TLC crashed, a tool is missing, coverage is vacuous... (exit code 2, never a verdict)."""


def spec_library() -> str:
    dirs = [os.path.join(SPECS, d) for d in sorted(os.listdir(SPECS)) if os.path.isdir(os.path.join(SPECS, d))]
    return os.pathsep.join(dirs)


@dataclass
class TLCResult:
    cmd: list
    exit_code: int
    stdout: str
    wall_s: float
    generated: int = 0          # "states generated"  (= transitions computed)
    distinct: int = 0           # "distinct states found"
    queue: int = 0
    depth: int = 0
    error: str | None = None    # invariant | deadlock | temporal | assumption | property | eval | None
    violated: list = field(default_factory=list)
    trace: list | None = None   # counterexample as list of {"action":..., "context":..., "state":{...}}
    coverage: dict = field(default_factory=dict)   # action name -> [distinct, total]
    timed_out: bool = False

    @property
    def ok(self) -> bool:
        return self.error is None and self.exit_code == 0 and not self.timed_out

    def printed(self) -> list:
        """Values printed by PrintT(ToJson(x)) / PrintT("string"): decoded python objects."""
        out = []
        for line in self.stdout.splitlines():
            line = line.strip()
            if len(line) >= 2 and line[0] == '"' and line[-1] == '"':
                try:
                    s = json.loads(line)
                except Exception:
                    continue
                if s[:1] in "{[":
                    try:
                        out.append(json.loads(s))
                        continue
                    except Exception:
                        pass
                out.append(s)
        return out

    def printed_json(self) -> list:
        return [x for x in self.printed() if not isinstance(x, str)]


_STATS = re.compile(r"(\d+) states generated, (\d+) distinct states found, (\d+) states left on queue")
_DEPTH = re.compile(r"The depth of the complete state graph search is (\d+)")
_SIMSTATS = re.compile(r"The number of states generated: (\d+)")
_COV = re.compile(r"^<(\w+) line \d+, col \d+ to line \d+, col \d+ of module (\w+)>: (\d+):(\d+)", re.M)
_COV_INIT = re.compile(r"^<(\w+) line \d+, col \d+ to line \d+, col \d+ of module (\w+)>: (\d+)$", re.M)


def run_tlc(workdir: str, module: str, cfg: str | None = None, *, workers: int | str = "auto",
            simulate: dict | None = None, seed: int | None = None, deadlock: bool = False,
            coverage: bool = False, dfs_queue: bool = False, env: dict | None = None,
            timeout: float = 900, scratch: str | None = None, extra: list | None = None,
            depth: int | None = None, max_heap: str | None = None, continue_: bool = False,
            allow_timeout: bool = False) -> TLCResult:
    """Run TLC on `module`.tla (found in workdir; other modules through TLA-Library = all spec dirs).

    deadlock=False  => `-deadlock` is passed (deadlock checking off), the usual case for bounded models.
    simulate={"num": N, "depth": D, "file": path?}.
    """
    if workers == "auto" and os.environ.get("VERIF_TLC_WORKERS"):
        workers = os.environ["VERIF_TLC_WORKERS"]
    if max_heap is None:
        max_heap = os.environ.get("VERIF_TLC_HEAP", "6g")
    scratch = scratch or os.path.join(workdir, "_tlc")
    os.makedirs(scratch, exist_ok=True)
    meta = os.path.join(scratch, "meta_%d" % time.time_ns())
    trace_json = os.path.join(scratch, "cex_%d.json" % time.time_ns())
    java = ["java", "-XX:+UseParallelGC", "-Djava.io.tmpdir=" + scratch,
            "-DTLA-Library=" + workdir + os.pathsep + spec_library()]
    if max_heap:
        java.append("-Xmx" + max_heap)
    if dfs_queue:
        java.append("-Dtlc2.tool.queue.IStateQueue=StateDeque")
    cmd = java + ["-cp", JAR + os.pathsep + DEPS, "tlc2.TLC", "-metadir", meta, "-noGenerateSpecTE",
                  "-workers", str(workers)]
    if not deadlock:
        cmd.append("-deadlock")
    if coverage:
        cmd += ["-coverage", "1"]
    if continue_:
        cmd.append("-continue")
    if simulate is not None:
        spec = "num=%d" % simulate.get("num", 100)
        if simulate.get("file"):
            spec = "file=%s,%s" % (simulate["file"], spec)
        cmd += ["-simulate", spec, "-depth", str(simulate.get("depth", depth or 50))]
    elif depth is not None:
        cmd += ["-depth", str(depth)]
    if seed is not None:
        cmd += ["-seed", str(seed)]
    if simulate is None:
        cmd += ["-dumpTrace", "json", trace_json]
    cmd += list(extra or [])
    cmd += ["-config", cfg or (module + ".cfg"), module + ".tla"]
    e = dict(os.environ)
    e.pop("JAVA_TOOL_OPTIONS", None)
    if env:
        e.update({k: str(v) for k, v in env.items()})
    t0 = time.time()
    timed_out = False
    try:
        p = subprocess.run(cmd, cwd=workdir, env=e, stdout=subprocess.PIPE, stderr=subprocess.STDOUT,
                           timeout=timeout, text=True, errors="replace")
        out, code = p.stdout, p.returncode
    except subprocess.TimeoutExpired as ex:
        timed_out = True
        out = ex.stdout if isinstance(ex.stdout, str) else (ex.stdout or b"").decode(errors="replace")
        code = -9
    wall = time.time() - t0
    r = TLCResult(cmd=cmd, exit_code=code, stdout=out, wall_s=wall, timed_out=timed_out)
    ms = _STATS.findall(out)
    if ms:
        r.generated, r.distinct, r.queue = map(int, ms[-1])
    m = _DEPTH.search(out)
    if m:
        r.depth = int(m.group(1))
    m = _SIMSTATS.search(out)
    if m and not ms:
        r.generated = int(m.group(1))
        r.distinct = r.generated
    for m in re.finditer(r"Error: Invariant (\S+) is violated", out):
        r.error = "invariant"
        r.violated.append(m.group(1))
    for m in re.finditer(r"Error: Action property (\S+) is violated", out):
        r.error = "property"
        r.violated.append(m.group(1))
    if r.error is None and "Error: Deadlock reached" in out:
        r.error = "deadlock"
    if r.error is None and "Temporal properties were violated" in out:
        r.error = "temporal"
    if r.error is None and re.search(r"Error: Assumption .* is false", out):
        r.error = "assumption"
    if r.error is None and "Error:" in out and not timed_out:
        r.error = "eval"
    for m in _COV.finditer(out):
        name = m.group(1)
        d, t = int(m.group(3)), int(m.group(4))
        old = r.coverage.get(name, [0, 0])
        r.coverage[name] = [max(old[0], d), max(old[1], t)]
    if os.path.exists(trace_json):
        try:
            with open(trace_json) as f:
                j = json.load(f)
            ce = j.get("counterexample", {})
            states = [s[1] for s in ce.get("state", [])]
            acts = ce.get("action", [])
            tr = []
            for i, s in enumerate(states):
                a = acts[i - 1][1] if 0 < i <= len(acts) else {}
                tr.append({"action": a.get("name", "Init" if i == 0 else "?"),
                           "context": a.get("context", {}), "state": s})
            r.trace = tr
        except Exception:
            r.trace = None
    shutil.rmtree(meta, ignore_errors=True)
    if timed_out and not allow_timeout:
        raise MachineryError("TLC timed out after %.0fs: %s" % (timeout, " ".join(cmd[-4:])))
    if r.error == "eval":
        raise MachineryError("TLC evaluation error in %s:\n%s" % (module, _tail(out)))
    if code not in (0, 12, 13, 10, 11, -9) and r.error is None:
        raise MachineryError("TLC exit %d in %s:\n%s" % (code, module, _tail(out)))
    return r


def definition_hits(stdout: str, module: str, tla_text: str, names: list) -> dict:
    """Vacuity guard for specs whose Next cannot be split into named sub-actions: for each operator name,
    the largest evaluation count that `-coverage 1` reports for an expression inside its definition."""
    defs = [(m.start(), m.group(1)) for m in re.finditer(r"^([A-Za-z_][A-Za-z0-9_]*)(?:\([^)]*\))?\s*==", tla_text, re.M)]
    lines = tla_text.count("\n") + 2
    starts = []
    for pos, name in defs:
        starts.append((tla_text.count("\n", 0, pos) + 1, name))
    starts.sort()
    ranges = {}
    for i, (ln, name) in enumerate(starts):
        end = starts[i + 1][0] if i + 1 < len(starts) else lines
        ranges.setdefault(name, (ln, end))
    hits = {n: 0 for n in names}
    for m in re.finditer(r"line (\d+), col \d+ to line \d+, col \d+ of module %s(?: \([\d ]+\))?: (\d+)" % re.escape(module), stdout):
        ln, cnt = int(m.group(1)), int(m.group(2))
        for n in names:
            a, b = ranges.get(n, (0, 0))
            if a <= ln < b and cnt > hits[n]:
                hits[n] = cnt
    return hits


def _tail(s: str, n: int = 40) -> str:
    return "\n".join(s.splitlines()[-n:])


def sany(path: str) -> tuple[bool, str]:
    import tempfile
    d = os.path.dirname(os.path.abspath(path))
    tmp = tempfile.mkdtemp(prefix="vh_sany_")
    cmd = ["java", "-Djava.io.tmpdir=" + tmp, "-DTLA-Library=" + d + os.pathsep + spec_library(),
           "-cp", JAR + os.pathsep + DEPS, "tla2sany.SANY", os.path.basename(path)]
    try:
        p = subprocess.run(cmd, cwd=d, stdout=subprocess.PIPE, stderr=subprocess.STDOUT, text=True)
    finally:
        shutil.rmtree(tmp, ignore_errors=True)
    ok = p.returncode == 0 and "*** Errors" not in p.stdout and "Fatal" not in p.stdout and "Could not" not in p.stdout
    return ok, p.stdout


# ------------------------------------------------------------------------------------------------
# TLA+ value parser (for `-simulate file=` behaviours and printed states)
# ------------------------------------------------------------------------------------------------

class _P:
    def __init__(self, s):
        self.s, self.i = s, 0

    def ws(self):
        while self.i < len(self.s) and self.s[self.i] in " \t\r\n":
            self.i += 1

    def eat(self, tok):
        self.ws()
        if self.s.startswith(tok, self.i):
            self.i += len(tok)
            return True
        return False

    def expect(self, tok):
        if not self.eat(tok):
            raise ValueError("expected %r at %d: %r" % (tok, self.i, self.s[self.i:self.i + 30]))

    def value(self):
        self.ws()
        s = self.s
        c = s[self.i]
        if s.startswith("<<", self.i):
            self.i += 2
            items = []
            if self.eat(">>"):
                return items
            while True:
                items.append(self.value())
                if self.eat(">>"):
                    return items
                self.expect(",")
        if c == "{":
            self.i += 1
            items = []
            if self.eat("}"):
                return TSet(items)
            while True:
                items.append(self.value())
                if self.eat("}"):
                    return TSet(items)
                self.expect(",")
        if c == "[":
            self.i += 1
            rec = {}
            while True:
                self.ws()
                m = re.compile(r"[A-Za-z_][A-Za-z0-9_]*").match(s, self.i)
                key = m.group(0)
                self.i = m.end()
                self.expect("|->")
                rec[key] = self.value()
                if self.eat("]"):
                    return rec
                self.expect(",")
        if c == "(":
            self.i += 1
            fn = {}
            while True:
                k = self.value()
                self.expect(":>")
                v = self.value()
                fn[_key(k)] = v
                if self.eat(")"):
                    return fn
                self.expect("@@")
        if c == '"':
            j = self.i + 1
            buf = []
            while s[j] != '"':
                if s[j] == "\\":
                    j += 1
                    buf.append({"n": "\n", "t": "\t"}.get(s[j], s[j]))
                else:
                    buf.append(s[j])
                j += 1
            self.i = j + 1
            return "".join(buf)
        m = re.compile(r"-?\d+").match(s, self.i)
        if m:
            self.i = m.end()
            return int(m.group(0))
        m = re.compile(r"[A-Za-z_][A-Za-z0-9_]*").match(s, self.i)
        if m:
            self.i = m.end()
            w = m.group(0)
            return {"TRUE": True, "FALSE": False}.get(w, w)
        raise ValueError("cannot parse at %d: %r" % (self.i, s[self.i:self.i + 30]))


class TSet(list):
    """A TLA+ set (kept as a list; equality is order-insensitive)."""

    def __eq__(self, other):
        if not isinstance(other, list):
            return False
        return len(self) == len(other) and all(x in other for x in self) and all(x in self for x in other)

    def __ne__(self, other):
        return not self.__eq__(other)

    __hash__ = None


def _key(k):
    if isinstance(k, (list, dict)):
        return json.dumps(k, sort_keys=True)
    return k


def parse_value(text: str):
    p = _P(text)
    v = p.value()
    p.ws()
    if p.i != len(p.s):
        raise ValueError("trailing text: %r" % p.s[p.i:p.i + 30])
    return v


def parse_state(text: str) -> dict:
    """`/\\ x = 1\\n/\\ y = <<...>>` -> {"x": 1, "y": [...]}."""
    out = {}
    parts = re.split(r"^\s*/\\ ", text.strip(), flags=re.M)
    for part in parts:
        part = part.strip()
        if not part:
            continue
        name, _, val = part.partition(" = ")
        if not _:
            name, _, val = part.partition("=")
        out[name.strip()] = parse_value(val.strip())
    return out


_SIM_STATE = re.compile(r"^\\\* <(\w+)(?:\(([^)]*)\))? line .*?>\s*\nSTATE_(\d+) ==\s*\n(.*?)(?=^\\\* <|^====|\Z)", re.S | re.M)


def parse_sim_file(path: str) -> list:
    """One `-simulate file=` behaviour -> [{"action": name, "state": {...}}, ...]."""
    with open(path) as f:
        text = f.read()
    out = []
    for m in _SIM_STATE.finditer(text):
        body = m.group(4).strip()
        out.append({"action": m.group(1), "state": parse_state(body)})
    return out


def parse_printed_states(stdout: str) -> list:
    """Error-trace blocks `State N: <Action ...>` from plain TLC output."""
    out = []
    for m in re.finditer(r"^State (\d+): <([^>]*)>\s*\n(.*?)(?=^State \d+:|^\d+ states generated|^Error|\Z)", stdout, re.S | re.M):
        head = m.group(2)
        name = head.split(" ")[0]
        try:
            st = parse_state(m.group(3))
        except Exception:
            continue
        out.append({"action": name, "state": st})
    return out
