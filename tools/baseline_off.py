#!/venv/bin/python
"""Run the repository's pinned suite with the verification guard OFF and compare with BASELINE.json.

Exit 0 iff every test of BASELINE.stable_pass passes.  Usage: tools/baseline_off.py [repo]"""
import json, os, subprocess, sys, tempfile
import xml.etree.ElementTree as ET

repo = sys.argv[1] if len(sys.argv) > 1 else os.environ.get("VERIF_REPO", "/repo")
base = json.load(open("/root/.vp/BASELINE.json"))
env = {k: v for k, v in os.environ.items() if k not in ("STREAMFLOW_VERIF",)}
env["PYTHONPATH"] = repo
passed = set()
for attempt in (1, 2, 3):
    # the suite occasionally hangs inside a third-party extension (observed under load): time-box and retry
    with tempfile.TemporaryDirectory() as d:
        # the suite uses ~/.streamflow/<version>/sqlite.db: a private HOME keeps concurrent runs from locking each other out
        env["HOME"] = os.path.join(d, "home")
        os.makedirs(env["HOME"])
        out = os.path.join(d, "r.xml")
        try:
            p = subprocess.run(["/venv/bin/python", "-m", "pytest", "-ra", "-q", "-p", "no:cacheprovider", "--timeout=900",
                                "--continue-on-collection-errors", "--junitxml=" + out], cwd=repo, env=env,
                               stdout=subprocess.PIPE, stderr=subprocess.STDOUT, text=True,
                               timeout=int(os.environ.get("BASELINE_TIMEOUT", "480")))
        except subprocess.TimeoutExpired:
            print("attempt %d: pytest did not finish within the time box, retrying" % attempt)
            continue
        if not os.path.exists(out):
            print("attempt %d: no junit file" % attempt)
            continue
        passed = set()
        for tc in ET.parse(out).getroot().iter("testcase"):
            if not any(ch.tag in ("failure", "error", "skipped") for ch in tc):
                passed.add("%s::%s" % (tc.get("classname"), tc.get("name")))
        break
want = set(base["stable_pass"])
missing = sorted(want - passed)
print("stable_pass=%d passed_now=%d missing=%d" % (len(want), len(passed), len(missing)))
for m in missing[:40]:
    print("  NOT PASSING:", m)
sys.exit(1 if missing else 0)
