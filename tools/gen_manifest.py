#!/venv/bin/python
"""Regenerates MANIFEST.json from tools/manifest_src.py (single place to edit) and validates it."""
import json, os, sys
HERE = os.path.dirname(os.path.dirname(os.path.abspath(__file__)))
sys.path.insert(0, os.path.join(HERE, "tools"))
import manifest_src as m
import jsonschema
checks = []
for c in m.CHECKS:
    pid = c["id"]
    checks.append({
        "property_id": pid,
        "quick_cmd": "./check %s --tier quick" % pid,
        "thorough_cmd": "./check %s --tier thorough" % pid,
        "evidence_file": "/verif/evidence/%s.json" % pid,
        "replay_cmd_template": "./check %s --replay {path}" % pid,
        "engine": c["engine"],
        "level_claimed": {"category": c["level"], "text": c["text"], "design_ref": c.get("design_ref", "DESIGN.md section 5, " + pid)},
        "level_note": c["note"],
        "technique": c["technique"],
    })
claimed = {c["id"] for c in m.CHECKS}
props = [json.loads(l)["id"] for l in open(os.path.join(HERE, "properties.jsonl"))]
na = [{"property_id": p, "reason": m.NOT_APPLICABLE.get(p, m.NOT_YET)} for p in props if p not in claimed]
man = {
    "version": 1,
    "setup_cmd": "./tools/setup.sh",
    "hooks": m.HOOKS,
    "engines": m.ENGINES,
    "checks": checks,
    "not_applicable": na,
    "notes": m.NOTES,
}
jsonschema.validate(man, json.load(open("/root/.vp/MANIFEST.schema.json")))
json.dump(man, open(os.path.join(HERE, "MANIFEST.json"), "w"), indent=1)
print("MANIFEST.json: %d checks, %d not claimed" % (len(checks), len(na)))
