#!/bin/bash
# Usage: tools/try_mutant.sh <mutant-id e.g. C20a> <dir with patch.diff demo.py README.md> <check ids...>
# Applies the patch to a scratch worktree of /repo (never to /repo), confirms the demonstration (passes on
# /repo, fails on the patched tree), runs the given checks (quick) against the patched tree, stores the
# mutant under /verif/seeded/<id>/ with meta.json, and removes the worktree.
set -u
ID=$1; SRC=$2; shift 2
WT=/tmp/wt_try_$ID
OUT=/verif/seeded/$ID
git -C /repo worktree remove --force $WT >/dev/null 2>&1
git -C /repo worktree add -q --detach $WT HEAD || exit 2
if ! git -C $WT apply $SRC/patch.diff; then echo "PATCH DOES NOT APPLY"; git -C /repo worktree remove --force $WT; exit 2; fi
mkdir -p $OUT
cp $SRC/patch.diff $OUT/patch.diff
[ -f $SRC/demo.py ] && cp $SRC/demo.py $OUT/demo.py
[ -f $SRC/README.md ] && cp $SRC/README.md $OUT/README.md
( cd /tmp && PYTHONPATH=/repo timeout 600 /venv/bin/python $OUT/demo.py >/tmp/demo_$ID.base.log 2>&1 ); DB=$?
( cd /tmp && PYTHONPATH=$WT timeout 600 /venv/bin/python $OUT/demo.py >/tmp/demo_$ID.mut.log 2>&1 ); DM=$?
echo "demo: unchanged exit=$DB  patched exit=$DM"
BL=-1
if [ "${BASELINE:-1}" = "1" ]; then /verif/tools/baseline_off.py $WT > /tmp/baseline_$ID.log 2>&1; BL=$?; echo "pinned tests on patched tree: exit=$BL $(head -1 /tmp/baseline_$ID.log)"; fi
RES=""
for C in "$@"; do
  VERIF_REPO=$WT timeout 3000 /verif/check $C --tier ${TIER:-quick} >/tmp/chk_${ID}_$C.log 2>&1; RC=$?
  SIG=$(grep -m3 "signature:" /tmp/chk_${ID}_$C.log | sed 's/^ *signature: //' | tr '\n' ';')
  echo "check $C: exit=$RC  $SIG"
  RES="$RES{\"check\":\"$C\",\"tier\":\"${TIER:-quick}\",\"exit\":$RC,\"signatures\":\"$SIG\"},"
done
git -C /repo worktree remove --force $WT
echo "{\"id\":\"$ID\",\"demo_exit_unchanged\":$DB,\"demo_exit_patched\":$DM,\"pinned_tests_exit\":$BL,\"checks\":[${RES%,}]}" > $OUT/run.json
