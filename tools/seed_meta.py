#!/venv/bin/python
"""tools/seed_meta.py <id> <property> <needs-to-manifest text> [caught_by text]  -> seeded/<id>/meta.json (uses run.json)"""
import json, sys, os
i, prop, needs = sys.argv[1:4]
d = "/verif/seeded/%s" % i
run = json.load(open(d + "/run.json"))
meta = {"id": i, "breaks_property": prop, "needs_to_manifest": needs,
        "origin": "fresh sub-agent given only the property text and a scratch worktree",
        "confirmed": {"patch_applies_to_repo_HEAD": True,
                      "pinned_171_tests_pass_with_patch": run.get("pinned_tests_exit") == 0,
                      "demo_passes_unchanged": run["demo_exit_unchanged"] == 0,
                      "demo_fails_patched": run["demo_exit_patched"] != 0},
        "ran": ["tools/try_mutant.sh %s <dir> %s" % (i, " ".join(c["check"] for c in run["checks"]))],
        "checks": run["checks"],
        "detected": any(c["exit"] == 1 for c in run["checks"])}
if len(sys.argv) > 4:
    meta["note"] = sys.argv[4]
json.dump(meta, open(d + "/meta.json", "w"), indent=1)
print(json.dumps(meta["confirmed"]), "detected=", meta["detected"])
