"""Source of MANIFEST.json (edit here, then run tools/gen_manifest.py)."""

HOOKS = {
    "guard": "STREAMFLOW_VERIF",
    "enable": "./check sets STREAMFLOW_VERIF=1 and PYTHONPATH=/verif/harness:/repo; the harness imports /repo's current working "
              "tree in a fresh interpreter and installs run-time wrappers (vh/record.py) around public methods; no source patch "
              "is needed to build /repo",
    "baseline_off_cmd": "/verif/tools/baseline_off.py",
    "source_commits": [],
    "add_only": True,
}

NOT_YET = "check not built yet in this session (planned, see DESIGN.md section 5); not claimed until it is green on the unchanged tree"
NOT_APPLICABLE = {
    "C34": "well-formedness of one exported document (JSON-LD validity, checksums): no state machine, interleaving or history for a "
           "TLA+ specification to decide; see DESIGN.md section 6",
}

NOTES = ("Model-based verification with explicit TLA+ specifications (specs/<Module>/), TLC for exhaustive checking, and "
         "conformance binding in both directions (TLC-generated transitions/behaviours replayed into the real code; traces "
         "recorded from the real code validated by TLC).  known_findings.json lists genuine defects (recorded or fixed).")

ENGINES = [
    {"name": "Tags", "path": "specs/Tags", "serves_properties": ["C33"], "kind_free_text": "TLA+ module + TLC exhaustive + generated answers bound to core/utils.py"},
    {"name": "Graph", "path": "specs/Graph", "serves_properties": ["C20"], "kind_free_text": "TLA+ state machine, complete state graph, one implementation test per transition"},
]

CHECKS = [
    {"id": "C33", "engine": "Tags", "level": "model_checking",
     "technique": "TLA+ spec of the tag order checked by TLC on all triples; TLC-generated sorted sequence and query answers compared with the real functions on all ordered pairs",
     "text": "TLC checks totality, antisymmetry, transitivity, depth-first and numeric-component laws of Tags!Cmp on every triple of tags "
             "(depth<=3, components 0..3, 0..4 thorough).  The specification then sorts all 2379 tags of depth<=3 over 0..12 and answers "
             "random deeper multi-digit queries; the real compare_tags is compared with it on all 5.66M ordered pairs, cmp_to_key sorts, "
             "get_tag on every permutation of prefix chains, and job-name splitting.  Exhaustive at the bound the property names.",
     "note": "Trusted: TLC, the SortSeq override (direction checked at run time), the transcription Tags.tla; strings are dot-joined decimal naturals."},
    {"id": "C20", "engine": "Graph", "level": "model_checking",
     "technique": "TLA+ transcription of the graph operations proved (TLC, complete state graph) to refine plain-graph semantics; every transition replayed on the real classes",
     "text": "Graph.tla transcribes add/remove_nodes(prune)/replace/promote_to_source over the two adjacency maps as coded and TLC checks on the "
             "complete state graph (all operation sequences over 3 nodes with cycles, 4 nodes acyclic; 4 nodes general on thorough) that the "
             "transcription equals the declarative meaning stated by the property and keeps successor/predecessor views mirrored.  Every "
             "transition (about 60k quick) is replayed on DirectedGraph/DirectedAcyclicGraph and every query method compared; random "
             "sequences on 8..12 nodes come from TLC simulation.",
     "note": "Trusted: TLC; source states are built through the public add() API; node ids are small integers."},
]
