#!/venv/bin/python
"""Audit of the known-finding lists: every listed entry must still be hit by its check on the current tree (a stale
entry would mask a regression).  Reads `known={...}` from the summary lines of check logs given on the command line."""
import ast, glob, json, re, sys
hit = {}
for f in sys.argv[1:]:
    for line in open(f, errors="replace"):
        m = re.search(r"^(C\d+) tier=\w+ .* known=(\{.*?\}) wall", line)
        if m:
            for k, v in ast.literal_eval(m.group(2)).items():
                hit.setdefault(m.group(1), {}).setdefault(k, 0)
                hit[m.group(1)][k] += v
listed = {}
for p in ["/verif/known_findings.json"] + glob.glob("/verif/known_findings.d/*.json"):
    for k in json.load(open(p)).get("findings", []):
        listed.setdefault(k["property"], []).append(k["id"])
for prop in sorted(listed):
    for i in listed[prop]:
        n = hit.get(prop, {}).get(i, 0)
        print("%s %-55s %s" % (prop, i, "hit %d" % n if n else "NEVER HIT in the given logs"))
