#!/venv/bin/python
"""Prints the markdown table of seeded changes (seeded/*/meta.json) for DESIGN.md section 10.3."""
import glob, json, os
rows = []
for f in sorted(glob.glob("/verif/seeded/*/meta.json")):
    m = json.load(open(f))
    chk = "; ".join("%s: %s" % (c["check"], ("caught (" + (c["signatures"].split(";")[0] or "-") + ")") if c["exit"] == 1 else ("MISSED" if c["exit"] == 0 else "error exit %s" % c["exit"])) for c in m["checks"])
    rows.append("| %s | %s | %s | %s | %s |" % (m["id"], m["breaks_property"], m["needs_to_manifest"].replace("|", "/")[:230], chk.replace("|", "/")[:260], m.get("note", "")))
print("| id | property | what it needs to manifest | result of the registered quick check(s) | note |")
print("|---|---|---|---|---|")
print("\n".join(rows))
