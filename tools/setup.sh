#!/bin/sh
# Offline setup: parse every TLA+ module with SANY and byte-compile the harness. No installs.
set -e
cd "$(dirname "$0")/.."
export PYTHONPATH="$PWD/harness:${VERIF_REPO:-/repo}" PYTHONDONTWRITEBYTECODE=1
/venv/bin/python - <<'PY'
import glob, os, sys, py_compile
from concurrent.futures import ThreadPoolExecutor
from vh import tlc
bad = 0
for f in glob.glob("harness/vh/**/*.py", recursive=True):
    try:
        compile(open(f).read(), f, "exec")
    except Exception as e:
        print("PY-ERROR", f, e); bad += 1
mods = sorted(glob.glob("specs/*/*.tla"))
def one(m):
    ok, out = tlc.sany(m)
    return m, ok, out
with ThreadPoolExecutor(8) as ex:
    for m, ok, out in ex.map(one, mods):
        if not ok:
            print("SANY-ERROR", m); print(out[-1500:]); bad += 1
print("setup: %d modules parsed, %d errors" % (len(mods), bad))
sys.exit(1 if bad else 0)
PY
