#!/venv/bin/python
"""Prints the prompt given to a fresh sub-agent that seeds a property-breaking change (nothing from /verif but the property text)."""
import json, sys
pid = sys.argv[1]
p = next(json.loads(l) for l in open("/verif/properties.jsonl") if json.loads(l)["id"] == pid)
n = sys.argv[2] if len(sys.argv) > 2 else "a"
print(f"""You are testing how well an (unseen) verification suite detects regressions in the Python project StreamFlow (alpha-unito/streamflow, an asyncio workflow management system). You get only the text of one semantic property; do NOT read or list anything under /verif or /root/.vp/check or /root/.claude (it is off limits and would invalidate the experiment).

Property {p['id']} — {p['title']}
Statement: {p.get('statement', p['title'])}
Quantified over: {p['quantifier']['text']}
Code anchors: {', '.join(p['anchors']['files'])}
Mechanisms meant to make it hold: {'; '.join(m.get('name','') + ' (' + m.get('where','') + ')' for m in p['anchors'].get('mechanism', []))}

Your job: produce ONE realistic change to the StreamFlow source that BREAKS this property while the code still imports/compiles and the repository's existing test suite still passes. The kind of change wanted is a plausible regression a developer could introduce (a refactoring slip, an off-by-one, a wrong comparison, a missing branch, a lost await/lock, two cooperating sites that each look fine alone) — NOT sabotage that ordinary use would expose at once. It must need something specific to manifest: a particular interleaving, a crash or fault at a particular point, a multi-step sequence of operations, an unusual input, or a particular configuration. Keep the diff small (typically 1-15 changed lines), only under streamflow/ (never tests/).

Set-up: create your own scratch worktree and work ONLY there:  git -C /repo worktree add --detach /tmp/mut_{pid}{n} HEAD   (then cd /tmp/mut_{pid}{n}). Never modify /repo itself. Python: /venv/bin/python (run things with PYTHONPATH=/tmp/mut_{pid}{n} so your tree is imported instead of /repo; check with `python -c "import streamflow; print(streamflow.__file__)"`). No network; docker/ssh/kubernetes/slurm are unavailable (many repository tests fail offline for that reason regardless of your change).

Requirements and how to verify them yourself:
1. Existing tests: run  cd /tmp/mut_{pid}{n} && PYTHONPATH=/tmp/mut_{pid}{n} /venv/bin/python -m pytest -q -p no:cacheprovider --timeout=900 --continue-on-collection-errors --junitxml=/tmp/mut_{pid}{n}.junit.xml  (about 2 minutes; many tests error offline — that is expected). The set of tests that must still pass is the list "stable_pass" in /root/.vp/BASELINE.json (171 test ids of the form module::name). Parse the junit file and confirm every one of them passes with your change.
2. Demonstration: write a small self-contained script demo.py (plain python or pytest-free asyncio; it may import streamflow and build objects the way the repository's tests/utils do) that exercises the property: it must exit 0 on the UNCHANGED code (PYTHONPATH=/repo) and exit non-zero, printing what went wrong, on your changed tree (PYTHONPATH=/tmp/mut_{pid}{n}). It must be deterministic (run it 3 times each way).
3. Write your results to /tmp/mut_out/{pid}{n}/ : patch.diff (output of `git -C /tmp/mut_{pid}{n} diff`), demo.py, and README.md explaining: what the change is, why it breaks the property, what it needs in order to manifest (interleaving / input / sequence / configuration), why the existing tests do not notice, and the exact commands you ran with their outcomes.
4. Finally remove your worktree: git -C /repo worktree remove --force /tmp/mut_{pid}{n}  and delete the junit file.

If after serious effort you cannot find a change that satisfies all of the above for this property, write README.md explaining what you tried and why it failed, and say so in your final message. Your final message: 5-10 lines — the change in one sentence, what it needs to manifest, and confirmation of checks 1 and 2.""")
