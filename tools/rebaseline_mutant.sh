#!/bin/bash
# Re-run only the pinned test suite on the patched tree of an already stored seeded change and update run.json.
ID=$1; WT=/tmp/wt_rb_$ID; OUT=/verif/seeded/$ID
git -C /repo worktree remove --force $WT >/dev/null 2>&1
git -C /repo worktree add -q --detach $WT HEAD || exit 2
git -C $WT apply $OUT/patch.diff || { git -C /repo worktree remove --force $WT; exit 2; }
/verif/tools/baseline_off.py $WT > /tmp/baseline_$ID.log 2>&1; BL=$?
git -C /repo worktree remove --force $WT
/venv/bin/python - <<PY
import json
p="$OUT/run.json"; j=json.load(open(p)); j["pinned_tests_exit"]=$BL; json.dump(j,open(p,"w"))
print("$ID pinned tests exit", $BL, open("/tmp/baseline_$ID.log").readline().strip())
PY
